/-
Model of `crates/storage/src/intern.rs` (with `sharded.rs`) — property C15.

Part 1: a labelled transition system for the concurrent interner.
  * shared state: the per-(type id, hash) table entry `none | some a` (a `Weak` to allocation `a`),
    the allocations (append-only list of contents; allocation id = index),
  * any number of tasks (`spawn`), each with a program counter that walks through the code of
    `Interner::intern` / `intern_unsized` (identical step structure), `get_from_hash`,
    `Interned::clone`, drop of an `Interned`, and `vacuum_shard`,
  * one event per atomic step: a lock acquisition/release of one shard `RwLock`, one
    `HashMap::get/entry` + `Weak::upgrade` performed under that lock, one `Arc::new` + `insert`
    under the write lock, one `Arc` clone/drop.
  * `Arc`/`Weak` are modelled by their specification: the strong count of an allocation is the
    number of handles (`Arc`s) that exist for it, anywhere (user-held, about to be returned, or
    the temporary made by `vacuum`'s `upgrade().is_some()`); `Weak::upgrade` succeeds iff that
    number is non-zero.
  * an `RwLock` is modelled by its holders: a task holds a lock iff its program counter is inside
    the corresponding guard's scope; `write()` is enabled iff nobody holds the lock,
    `read_recursive()` iff no writer holds it, `try_write()` that fails is a no-op (no event).

Part 2: the atomic ("one step per call") specification `AState`/`aStep` used by the trace
  validator, and a sequential runner of the LTS used for operation-sequence correspondence.

Part 3: the encode/decode session logic of `impl Encode/Decode for Interned<T>` as sequential
  functions over a token stream, and the byte rendering of the tokens (postcard varints).

Nothing outside core is imported (the driver links this file).
-/
namespace QbiceVerif.Interner

/-! ## Part 1 — the LTS -/

/-- `InternedID`: stable type id + 128-bit content hash. -/
structure Slot where
  ty : Nat
  hash : Nat
deriving DecidableEq, Repr, Inhabited

/-- A value handed to `intern`: its Rust type (by stable type id) and its content. -/
structure Val where
  ty : Nat
  data : Nat
deriving DecidableEq, Repr, Inhabited

/-- One shard lock of one typed table: `TypedShard<T>.shards[idx]`. -/
structure LockId where
  ty : Nat
  idx : Nat
deriving DecidableEq, Repr, Inhabited

/-- Parameters: the content hash (it does not see the type, exactly like `Interner::hash_128`)
    and `Sharded::shard_index`. -/
structure Cfg where
  hash : Nat → Nat
  shard : Nat → Nat

def Cfg.slot (c : Cfg) (v : Val) : Slot := ⟨v.ty, c.hash v.data⟩
def Cfg.lockOf (c : Cfg) (k : Slot) : LockId := ⟨k.ty, c.shard k.hash⟩

/-- Program counters.  The comment gives the position in the Rust code. -/
inductive Pc
  | idle
  /-- `intern(v)`: hash computed, typed shard obtained; next `typed_shard.read_shard(i)` -/
  | iStart (v : Val)
  /-- read guard held; next `read_shard.get(&h).and_then(Weak::upgrade)` -/
  | iRdHeld (v : Val)
  /-- upgraded to `a` under the read guard; next: guard dropped, `return Interned(arc)` -/
  | iRdHit (v : Val) (a : Nat)
  /-- miss under the read guard; next: guard dropped at the end of the block -/
  | iRdMiss (v : Val)
  /-- next `typed_shard.write_shard(i)` -/
  | iWrWait (v : Val)
  /-- write guard held; next `entry(h)` and, if occupied, `entry.get().upgrade()` -/
  | iWrHeld (v : Val)
  /-- re-check found a live entry; next: guard dropped, return -/
  | iWrHit (v : Val) (a : Nat)
  /-- re-check found the entry vacant or dead; next `Arc::new(value)`, `entry.insert(weak)` -/
  | iWrDead (v : Val)
  /-- stored; next: guard dropped, return -/
  | iWrNew (v : Val) (a : Nat)
  /-- `get_from_hash::<T>(h)`; next `read_shard(i)` -/
  | gStart (k : Slot)
  /-- read guard held; next `get(&h).and_then(Weak::upgrade)` -/
  | gRdHeld (k : Slot)
  /-- result computed under the guard; next: guard dropped, return -/
  | gDone (k : Slot) (r : Option Nat)
  /-- `vacuum_shard`: `try_write()` succeeded on lock `l`; `retain` is running -/
  | vHeld (l : LockId)
  /-- inside `retain`'s closure for slot `k`: `weak.upgrade()` returned the temporary `a` -/
  | vTemp (l : LockId) (k : Slot) (a : Nat)
deriving DecidableEq, Repr, Inhabited

/-- handles (`Arc`s) that exist inside the frame of the running call -/
def Pc.handles : Pc → List Nat
  | .iRdHit _ a => [a]
  | .iWrHit _ a => [a]
  | .iWrNew _ a => [a]
  | .gDone _ (some a) => [a]
  | .vTemp _ _ a => [a]
  | _ => []

/-- handles inside the frame that will be returned to the caller (everything but vacuum's temporary) -/
def Pc.userHandles : Pc → List Nat
  | .vTemp _ _ _ => []
  | p => p.handles

def Pc.rlock (c : Cfg) : Pc → Option LockId
  | .iRdHeld v => some (c.lockOf (c.slot v))
  | .iRdHit v _ => some (c.lockOf (c.slot v))
  | .iRdMiss v => some (c.lockOf (c.slot v))
  | .gRdHeld k => some (c.lockOf k)
  | .gDone k _ => some (c.lockOf k)
  | _ => none

def Pc.wlock (c : Cfg) : Pc → Option LockId
  | .iWrHeld v => some (c.lockOf (c.slot v))
  | .iWrHit v _ => some (c.lockOf (c.slot v))
  | .iWrDead v => some (c.lockOf (c.slot v))
  | .iWrNew v _ => some (c.lockOf (c.slot v))
  | .vHeld l => some l
  | .vTemp l _ _ => some l
  | _ => none

structure Task where
  pc : Pc
  /-- the `Interned` handles the thread owns -/
  held : List Nat
  /-- what the last completed `intern` / `get_from_hash` returned -/
  ret : Option Nat
deriving Repr, Inhabited

def Task.handles (t : Task) : List Nat := t.held ++ t.pc.handles
def Task.userHandles (t : Task) : List Nat := t.held ++ t.pc.userHandles

structure State where
  tasks : List Task
  /-- `HashMap<Compact128, Weak<T>>` of every typed shard, as one function of the slot -/
  table : Slot → Option Nat
  /-- contents of all allocations ever made; allocation id = index -/
  allocs : List Val

def State.init : State := ⟨[], fun _ => none, []⟩

/-- strong count of allocation `a` = number of handles that exist -/
def State.strong (s : State) (a : Nat) : Nat := (s.tasks.map (fun t => t.handles.count a)).sum

/-- `Weak::upgrade` succeeds -/
def State.liveB (s : State) (a : Nat) : Bool := s.tasks.any (fun t => t.handles.contains a)

def State.noWriter (c : Cfg) (s : State) (l : LockId) : Bool :=
  s.tasks.all (fun t => t.pc.wlock c != some l)
def State.noReader (c : Cfg) (s : State) (l : LockId) : Bool :=
  s.tasks.all (fun t => t.pc.rlock c != some l)

def setTable (tb : Slot → Option Nat) (k : Slot) (x : Option Nat) : Slot → Option Nat :=
  fun k' => if k' = k then x else tb k'

inductive Act
  | callIntern (v : Val)
  | callGet (k : Slot)
  | rdLock | probe | rdUnlock | wrLock | recheck | allocStore | wrUnlock
  | clone (i : Nat)
  | drop (i : Nat)
  | vacTry (l : LockId)
  | vacUp (k : Slot)
  | vacDown
  | vacUnlock
deriving DecidableEq, Repr

inductive Ev
  | spawn
  | act (t : Nat) (a : Act)
deriving DecidableEq, Repr

/-- `Weak::upgrade` on the table entry of slot `k` -/
def State.probe (s : State) (k : Slot) : Option Nat :=
  match s.table k with
  | some a => if s.liveB a then some a else none
  | none => none

/-- Effect of one atomic step of task `tk` (new task record, new table, new allocations);
    `none` = not enabled. -/
def act (c : Cfg) (s : State) (tk : Task) : Act → Option (Task × (Slot → Option Nat) × List Val)
  | .callIntern v =>
    match tk.pc with
    | .idle => some ({ tk with pc := .iStart v }, s.table, s.allocs)
    | _ => none
  | .callGet k =>
    match tk.pc with
    | .idle => some ({ tk with pc := .gStart k }, s.table, s.allocs)
    | _ => none
  | .rdLock =>
    match tk.pc with
    | .iStart v =>
      if s.noWriter c (c.lockOf (c.slot v)) then some ({ tk with pc := .iRdHeld v }, s.table, s.allocs) else none
    | .gStart k =>
      if s.noWriter c (c.lockOf k) then some ({ tk with pc := .gRdHeld k }, s.table, s.allocs) else none
    | _ => none
  | .probe =>
    match tk.pc with
    | .iRdHeld v =>
      match s.probe (c.slot v) with
      | some a => some ({ tk with pc := .iRdHit v a }, s.table, s.allocs)
      | none => some ({ tk with pc := .iRdMiss v }, s.table, s.allocs)
    | .gRdHeld k =>
      match s.probe k with
      | some a => some ({ tk with pc := .gDone k (some a) }, s.table, s.allocs)
      | none => some ({ tk with pc := .gDone k none }, s.table, s.allocs)
    | _ => none
  | .rdUnlock =>
    match tk.pc with
    | .iRdHit _ a => some ({ pc := .idle, held := tk.held ++ [a], ret := some a }, s.table, s.allocs)
    | .iRdMiss v => some ({ tk with pc := .iWrWait v }, s.table, s.allocs)
    | .gDone _ (some a) => some ({ pc := .idle, held := tk.held ++ [a], ret := some a }, s.table, s.allocs)
    | .gDone _ none => some ({ pc := .idle, held := tk.held, ret := none }, s.table, s.allocs)
    | _ => none
  | .wrLock =>
    match tk.pc with
    | .iWrWait v =>
      if s.noWriter c (c.lockOf (c.slot v)) && s.noReader c (c.lockOf (c.slot v))
      then some ({ tk with pc := .iWrHeld v }, s.table, s.allocs) else none
    | _ => none
  | .recheck =>
    match tk.pc with
    | .iWrHeld v =>
      match s.probe (c.slot v) with
      | some a => some ({ tk with pc := .iWrHit v a }, s.table, s.allocs)
      | none => some ({ tk with pc := .iWrDead v }, s.table, s.allocs)
    | _ => none
  | .allocStore =>
    match tk.pc with
    | .iWrDead v =>
      some ({ tk with pc := .iWrNew v s.allocs.length },
            setTable s.table (c.slot v) (some s.allocs.length), s.allocs ++ [v])
    | _ => none
  | .wrUnlock =>
    match tk.pc with
    | .iWrHit _ a => some ({ pc := .idle, held := tk.held ++ [a], ret := some a }, s.table, s.allocs)
    | .iWrNew _ a => some ({ pc := .idle, held := tk.held ++ [a], ret := some a }, s.table, s.allocs)
    | _ => none
  | .clone i =>
    match tk.pc with
    | .idle =>
      match tk.held[i]? with
      | some a => some ({ tk with held := tk.held ++ [a] }, s.table, s.allocs)
      | none => none
    | _ => none
  | .drop i =>
    match tk.pc with
    | .idle => if i < tk.held.length then some ({ tk with held := tk.held.eraseIdx i }, s.table, s.allocs) else none
    | _ => none
  | .vacTry l =>
    match tk.pc with
    | .idle =>
      if s.noWriter c l && s.noReader c l then some ({ tk with pc := .vHeld l }, s.table, s.allocs) else none
    | _ => none
  | .vacUp k =>
    match tk.pc with
    | .vHeld l =>
      if c.lockOf k = l then
        match s.table k with
        | some a =>
          if s.liveB a then some ({ tk with pc := .vTemp l k a }, s.table, s.allocs)
          else some (tk, setTable s.table k none, s.allocs)
        | none => none
      else none
    | _ => none
  | .vacDown =>
    match tk.pc with
    | .vTemp l _ _ => some ({ tk with pc := .vHeld l }, s.table, s.allocs)
    | _ => none
  | .vacUnlock =>
    match tk.pc with
    | .vHeld _ => some ({ tk with pc := .idle }, s.table, s.allocs)
    | _ => none

/-- `fire`, with `none` for "not enabled". -/
def step (c : Cfg) (s : State) : Ev → Option State
  | .spawn => some { s with tasks := s.tasks ++ [⟨.idle, [], none⟩] }
  | .act t a =>
    match s.tasks[t]? with
    | none => none
    | some tk =>
      match act c s tk a with
      | none => none
      | some (tk', tb, al) => some ⟨s.tasks.set t tk', tb, al⟩

def enabled (c : Cfg) (s : State) (e : Ev) : Bool := (step c s e).isSome

/-- every state of every schedule of every number of tasks -/
inductive Reachable (c : Cfg) : State → Prop
  | init : Reachable c State.init
  | step {s s' : State} (e : Ev) : Reachable c s → step c s e = some s' → Reachable c s'

def run (c : Cfg) (s : State) : List Ev → Option State
  | [] => some s
  | e :: es => match step c s e with
    | some s' => run c s' es
    | none => none

/-! ### a sequential runner (used by the driver): run one call of one task to completion -/

/-- the unique enabled non-call action of a task that is inside a call (vacuum excluded) -/
def nextAct : Pc → Option Act
  | .iStart _ => some .rdLock
  | .iRdHeld _ => some .probe
  | .iRdHit _ _ => some .rdUnlock
  | .iRdMiss _ => some .rdUnlock
  | .iWrWait _ => some .wrLock
  | .iWrHeld _ => some .recheck
  | .iWrHit _ _ => some .wrUnlock
  | .iWrDead _ => some .allocStore
  | .iWrNew _ _ => some .wrUnlock
  | .gStart _ => some .rdLock
  | .gRdHeld _ => some .probe
  | .gDone _ _ => some .rdUnlock
  | _ => none

inductive RunErr
  | notEnabled | outOfFuel | noTask
deriving Repr, DecidableEq

def finishCall (c : Cfg) (t : Nat) : Nat → State → Except RunErr State
  | 0, _ => .error .outOfFuel
  | fuel + 1, s =>
    match s.tasks[t]? with
    | none => .error .noTask
    | some tk =>
      match nextAct tk.pc with
      | none => .ok s
      | some a =>
        match step c s (.act t a) with
        | some s' => finishCall c t fuel s'
        | none => .error .notEnabled

/-- a whole call executed without interleaving -/
def runCall (c : Cfg) (s : State) (t : Nat) (call : Act) : Except RunErr State :=
  match step c s (.act t call) with
  | none => .error .notEnabled
  | some s' => finishCall c t 16 s'

/-- a whole vacuum pass over one lock: try_write, visit the given slots, unlock -/
def runVacuum (c : Cfg) (s : State) (t : Nat) (l : LockId) (slots : List Slot) : Except RunErr State :=
  match step c s (.act t (.vacTry l)) with
  | none => .ok s          -- `try_write` failed: the shard is skipped
  | some s1 =>
    let rec visit : List Slot → State → Except RunErr State
      | [], s => .ok s
      | k :: ks, s =>
        match step c s (.act t (.vacUp k)) with
        | none => visit ks s            -- no entry for this slot
        | some s' =>
          match step c s' (.act t .vacDown) with
          | some s'' => visit ks s''    -- retained
          | none => visit ks s'         -- removed (no temporary)
    match visit slots s1 with
    | .error e => .error e
    | .ok s2 =>
      match step c s2 (.act t .vacUnlock) with
      | some s3 => .ok s3
      | none => .error .notEnabled

/-! ## Part 2 — the atomic specification -/

/-- Atomic interner: who holds which handle, and what each allocation contains. -/
structure AState where
  held : List (List Nat)
  allocs : List Val

def AState.init : AState := ⟨[], []⟩

/-- the live allocation of slot `k`, if any: the first handle of that slot held by anybody
    (`canonical` says all such handles point to one allocation) -/
def AState.current (c : Cfg) (s : AState) (k : Slot) : Option Nat :=
  s.held.flatten.find? (fun a =>
    match s.allocs[a]? with
    | some v => decide (c.slot v = k)
    | none => false)

inductive AOp
  | spawn
  | intern (t : Nat) (v : Val)
  | get (t : Nat) (k : Slot)
  | clone (t i : Nat)
  | drop (t i : Nat)
deriving Repr, DecidableEq

def addHandle (held : List (List Nat)) (t a : Nat) : List (List Nat) :=
  held.set t ((held.getD t []) ++ [a])

/-- one call, atomically; the second component is the returned allocation (for intern / get) -/
def aStep (c : Cfg) (s : AState) : AOp → Option (AState × Option Nat)
  | .spawn => some ({ s with held := s.held ++ [[]] }, none)
  | .intern t v =>
    if t < s.held.length then
      match s.current c (c.slot v) with
      | some a => some ({ s with held := addHandle s.held t a }, some a)
      | none => some (⟨addHandle s.held t s.allocs.length, s.allocs ++ [v]⟩, some s.allocs.length)
    else none
  | .get t k =>
    if t < s.held.length then
      match s.current c k with
      | some a => some ({ s with held := addHandle s.held t a }, some a)
      | none => some (s, none)
    else none
  | .clone t i =>
    match s.held[t]? with
    | some h => match h[i]? with
      | some a => some ({ s with held := addHandle s.held t a }, none)
      | none => none
    | none => none
  | .drop t i =>
    match s.held[t]? with
    | some h => if i < h.length then some ({ s with held := s.held.set t (h.eraseIdx i) }, none) else none
    | none => none

/-- what the LTS state looks like from outside: user-visible handles (held + about to be returned) -/
def State.abs (s : State) : AState := ⟨s.tasks.map Task.userHandles, s.allocs⟩

/-! ## Part 3 — encode / decode of interned handles (the `SeenInterned` session) -/

/-- A value graph made of interned handles: `Interned<T>` where `T` has stable type id `ty`, a scalar
    payload `label`, and contains the interned handles `kids` in field order. -/
inductive Tm
  | node (ty label : Nat) (kids : List Tm)
deriving Repr, Inhabited

def Tm.ty : Tm → Nat
  | .node ty _ _ => ty
def Tm.label : Tm → Nat
  | .node _ l _ => l
def Tm.kids : Tm → List Tm
  | .node _ _ ks => ks

mutual
  def Tm.size : Tm → Nat
    | .node _ _ kids => 1 + Tm.sizeList kids
  def Tm.sizeList : List Tm → Nat
    | [] => 0
    | t :: ts => t.size + Tm.sizeList ts
end

mutual
  def Tm.beq : Tm → Tm → Bool
    | .node ty l ks, .node ty' l' ks' => ty == ty' && l == l' && Tm.beqList ks ks'
  def Tm.beqList : List Tm → List Tm → Bool
    | [], [] => true
    | a :: as, b :: bs => Tm.beq a b && Tm.beqList as bs
    | _, _ => false
end

/-- `InternedID` of a handle under the hasher `H` (`Interner::hash_128` of the pointee) -/
def Tm.key (H : Tm → Nat) (t : Tm) : Nat × Nat := (t.ty, H t)

/-- wire tokens: `Source` (tag 0, then the value: label and number of contained handles) and
    `Reference` (tag 1, then the hash) -/
inductive Tok
  | src (ty label n : Nat)
  | ref (ty h : Nat)
deriving Repr, DecidableEq, Inhabited

/- `impl Encode for Interned<T>`: the id is inserted into the session's seen set *first*; a first
    occurrence emits the full value (which encodes the contained handles in the same session), a later
    one only the hash. -/
mutual
  def enc (H : Tm → Nat) (seen : List (Nat × Nat)) : Tm → List Tok × List (Nat × Nat)
    | .node ty label kids =>
      if (ty, H (.node ty label kids)) ∈ seen then ([.ref ty (H (.node ty label kids))], seen)
      else
        let r := encList H ((ty, H (.node ty label kids)) :: seen) kids
        (.src ty label kids.length :: r.1, r.2)
  def encList (H : Tm → Nat) (seen : List (Nat × Nat)) : List Tm → List Tok × List (Nat × Nat)
    | [] => ([], seen)
    | t :: ts =>
      let r1 := enc H seen t
      let r2 := encList H r1.2 ts
      (r1.1 ++ r2.1, r2.2)
end

/-- `Encoder::encode(&Vec<handle>)`: a fresh session per top-level call -/
def encodeTop (H : Tm → Nat) (ts : List Tm) : List Tok := (encList H [] ts).1

/-- The decoder's view of the interner: the values that are alive, by id, each with the allocation
    it lives in.  Handles produced by a running `decode` are owned by the value under construction
    (or by an equal, already interned value), so they stay alive until the top-level call returns;
    this is why `known` only grows. -/
structure DState where
  known : List ((Nat × Nat) × (Nat × Tm))
  fresh : Nat
  /-- (allocation, content) of every handle produced so far, in order of production -/
  log : List (Nat × Tm)
deriving Inhabited

def DState.lookup (d : DState) (k : Nat × Nat) : Option (Nat × Tm) :=
  match d.known.find? (fun e => e.1 == k) with
  | some e => some e.2
  | none => none

/-- `Interner::intern(value)` as seen by the decoder -/
def DState.intern (H : Tm → Nat) (d : DState) (v : Tm) : Tm × DState :=
  match d.lookup (v.key H) with
  | some (a, w) => (w, { d with log := d.log ++ [(a, w)] })
  | none => (v, ⟨(v.key H, (d.fresh, v)) :: d.known, d.fresh + 1, d.log ++ [(d.fresh, v)]⟩)

inductive DecErr
  | eof | refNotFound | outOfFuel
deriving Repr, DecidableEq

/- `impl Decode for Interned<T>`: `Source` → decode the value (which decodes and interns the
    contained handles), then `interner.intern(value)`; `Reference` → `get_from_hash(h).expect(..)`
    (`refNotFound` is that panic). -/
mutual
  def dec (H : Tm → Nat) : Nat → DState → List Tok → Except DecErr (Tm × DState × List Tok)
    | 0, _, _ => .error .outOfFuel
    | _ + 1, _, [] => .error .eof
    | _ + 1, d, .ref ty h :: rest =>
      match d.lookup (ty, h) with
      | some (a, v) => .ok (v, { d with log := d.log ++ [(a, v)] }, rest)
      | none => .error .refNotFound
    | fuel + 1, d, .src ty label n :: rest =>
      match decList H fuel n d rest with
      | .error e => .error e
      | .ok (kids, d1, rest1) =>
        let r := d1.intern H (.node ty label kids)
        .ok (r.1, r.2, rest1)
  def decList (H : Tm → Nat) : Nat → Nat → DState → List Tok → Except DecErr (List Tm × DState × List Tok)
    | 0, _, _, _ => .error .outOfFuel
    | _ + 1, 0, d, rest => .ok ([], d, rest)
    | fuel + 1, n + 1, d, rest =>
      match dec H fuel d rest with
      | .error e => .error e
      | .ok (t, d1, rest1) =>
        match decList H fuel n d1 rest1 with
        | .error e => .error e
        | .ok (ts, d2, rest2) => .ok (t :: ts, d2, rest2)
end

/-! ### bytes (postcard): used by the driver for the byte-for-byte comparison -/

def varint : Nat → Nat → List Nat
  | 0, n => [n % 128]
  | fuel + 1, n => if n < 128 then [n] else (n % 128 + 128) :: varint fuel (n / 128)

def hexDigitCode (n : Nat) : Nat := if n < 10 then 48 + n else 87 + n

/-- bytes of one token for the harness's value types: type 0/1 = `NodeA`/`NodeB { label: u8, kids: Vec<H> }`,
    type 2 = `[u8]` of one byte, type 3 = `str` of one hex digit; every handle is preceded by the tag of the
    enum `H` (= the type number) -/
def Tok.bytes : Tok → List Nat
  | .src ty label n =>
    if ty < 2 then [ty, 0, label] ++ varint 10 n
    else if ty = 2 then [ty, 0, 1, label]
    else [ty, 0, 1, hexDigitCode label]
  | .ref ty h => [ty, 1] ++ varint 10 (h % 2 ^ 64) ++ varint 10 (h / 2 ^ 64)

def encodeBytes (H : Tm → Nat) (ts : List Tm) : List Nat :=
  varint 10 ts.length ++ ((encodeTop H ts).map Tok.bytes).flatten

end QbiceVerif.Interner
