/-
Model of `WideColumnCache` (crates/storage/src/wide_column_cache.rs) as used by `CacheSingleMap`
(single_map/cache.rs) and `CacheDynamicMap` (dynamic_map/cache.rs), together with the part of the
write-behind pipeline that touches it (write_manager/write_behind.rs: `put_wide_column`, commit in
epoch order, `after_commit` → `flush_staging`).

The model is a labelled transition system for ONE cache key (cache entries of different keys only
interact through the admission cache's eviction decisions, which are abstracted to "any entry that
is not pinned may be evicted at any time"; a batch is represented by its projection on the key).
Any number of foreground tasks; every step below is one atomic step of the code (one entry-lock
critical section, one single-flight shard-lock critical section, one store read, one channel step).

  get    = probe ; (miss) sfEnter ; readDb ; fill (insert-if-vacant) ; sfLeave ; probe …   (loop)
  insert = put (record in the task's open batch, learn `updated`) ; cacheWrite (+pin if updated)
  remove = put none ; cacheWrite
  begin / submit          new write batch (epoch = pool counter) / hand it to the pipeline
  commit                  background: the submitted batch whose epoch is the expected one is applied
  notify                  background: after-commit of one committed batch that mentions the key: pin−1
  evict                   background: entry removed, enabled only when it is not pinned (pin ≤ 0)

`latest` is a ghost field: the value written by the most recent `cacheWrite` (the linearisation
point of a write), or the initial store content.

NOTE (history): this namespace is the cache WITHOUT the write-generation check that /repo commit
5fe68af added to `get` (finding F9).  With one foreground task the check never fires, so for one task
this is still a model of the code; with two or more tasks it is the code BEFORE 5fe68af (kept for the
witness of F9).  The model of the code as it is, for any number of tasks, is `WideCacheR` below with
`fix = true`; the correspondence driver runs that one.
-/
namespace QbiceVerif.WideCache

/-- `Entry<V>`: `value: Option<V>` (None = remembered absence), `pin_count: AtomicI32`. -/
structure Entry where
  val : Option Nat
  pin : Int
deriving DecidableEq, Repr

/-- program counter of a foreground task -/
inductive Pc where
  | idle
  | loop                      -- inside `get`, about to probe (again)
  | probed                    -- probe missed, about to enter the single flight
  | waiting                   -- single-flight waiter
  | working                   -- single-flight worker, about to read the store
  | read (v : Option Nat)     -- store value in hand, about to insert-if-vacant
  | filled                    -- about to leave the single flight
  | writing (v : Option Nat) (updated : Bool)   -- recorded in the batch, about to update the cache
deriving DecidableEq, Repr

/-- a write batch projected on the key: `write = none` – the batch does not mention the key. -/
structure Batch where
  epoch : Nat
  write : Option (Option Nat)
deriving DecidableEq, Repr

structure Task where
  pc : Pc := .idle
  openB : Option Batch := none
deriving DecidableEq, Repr

structure State where
  db : Option Nat
  entry : Option Entry
  tasks : List Task
  sf : Option Nat             -- task holding the single flight of the key
  submitted : List Batch      -- submitted, not yet committed (any order; commit picks by epoch)
  tokens : Nat                -- committed batches mentioning the key whose after-commit has not run
  nextEpoch : Nat
  expected : Nat
  latest : Option Nat         -- ghost
deriving DecidableEq, Repr

def init (db0 : Option Nat) (ntasks : Nat) : State :=
  { db := db0, entry := none, tasks := List.replicate ntasks {}, sf := none, submitted := [],
    tokens := 0, nextEpoch := 0, expected := 0, latest := db0 }

inductive Ev where
  | begin (t : Nat)
  | put (t : Nat) (v : Option Nat)
  | cacheWrite (t : Nat)
  | submit (t : Nat)
  | probe (t : Nat)
  | sfEnter (t : Nat)
  | sfWake (t : Nat)
  | readDb (t : Nat)
  | fill (t : Nat)
  | sfLeave (t : Nat)
  | commit
  | notify
  | evict
deriving DecidableEq, Repr

def getTask (s : State) (t : Nat) : Option Task := s.tasks[t]?

def setTask (s : State) (t : Nat) (x : Task) : State := { s with tasks := s.tasks.set t x }

/-- `WideColumnCache::insert` / `remove` under the entry lock. `v = some _` is insert, `none` is remove. -/
def cacheWriteEntry (e : Option Entry) (v : Option Nat) (updated : Bool) : Option Entry :=
  match v, e with
  | some x, none => some { val := some x, pin := if updated then 1 else 0 }
  | some x, some old => some { val := some x, pin := if updated then old.pin + 1 else old.pin }
  | none, none => if updated then some { val := none, pin := 1 } else none
  | none, some old =>
      if updated then some { val := none, pin := old.pin + 1 }
      else if old.pin = 0 then none
      else some { val := none, pin := old.pin }

/-- `flush_staging` for the key: `fetch_sub(1)` on the entry if it exists. -/
def notifyEntry (e : Option Entry) : Option Entry :=
  match e with
  | none => none
  | some old => some { old with pin := old.pin - 1 }

/-- One step.  `none` = the event is not enabled.  The second component is the value returned to
the caller of `get` when the step is a probe that hits. -/
def fire (s : State) : Ev → Option (State × Option (Option Nat))
  | .begin t =>
      match getTask s t with
      | some ⟨.idle, none⟩ =>
          some ({ setTask s t ⟨.idle, some ⟨s.nextEpoch, none⟩⟩ with nextEpoch := s.nextEpoch + 1 }, none)
      | _ => none
  | .put t v =>
      match getTask s t with
      | some ⟨.idle, some b⟩ =>
          -- `TypedWideColumnWrites::insert`: `updated` = the key was not yet in this batch
          some (setTask s t ⟨.writing v b.write.isNone, some { b with write := some v }⟩, none)
      | _ => none
  | .cacheWrite t =>
      match getTask s t with
      | some ⟨.writing v u, ob⟩ =>
          some ({ setTask s t ⟨.idle, ob⟩ with entry := cacheWriteEntry s.entry v u, latest := v }, none)
      | _ => none
  | .submit t =>
      match getTask s t with
      | some ⟨.idle, some b⟩ =>
          some ({ setTask s t ⟨.idle, none⟩ with submitted := s.submitted ++ [b] }, none)
      | _ => none
  | .probe t =>
      match getTask s t with
      | some ⟨pc, ob⟩ =>
          if pc = .idle ∨ pc = .loop then
            match s.entry with
            | some e => some (setTask s t ⟨.idle, ob⟩, some e.val)
            | none => some (setTask s t ⟨.probed, ob⟩, none)
          else none
      | none => none
  | .sfEnter t =>
      match getTask s t with
      | some ⟨.probed, ob⟩ =>
          match s.sf with
          | none => some ({ setTask s t ⟨.working, ob⟩ with sf := some t }, none)
          | some _ => some (setTask s t ⟨.waiting, ob⟩, none)
      | _ => none
  | .sfWake t =>
      match getTask s t with
      | some ⟨.waiting, ob⟩ => some (setTask s t ⟨.loop, ob⟩, none)
      | _ => none
  | .readDb t =>
      match getTask s t with
      | some ⟨.working, ob⟩ => some (setTask s t ⟨.read s.db, ob⟩, none)
      | _ => none
  | .fill t =>
      match getTask s t with
      | some ⟨.read v, ob⟩ =>
          let e' := match s.entry with
            | none => some { val := v, pin := 0 }
            | some e => some e
          some ({ setTask s t ⟨.filled, ob⟩ with entry := e' }, none)
      | _ => none
  | .sfLeave t =>
      match getTask s t with
      | some ⟨.filled, ob⟩ => some ({ setTask s t ⟨.loop, ob⟩ with sf := none }, none)
      | _ => none
  | .commit =>
      match s.submitted.find? (fun b => b.epoch = s.expected) with
      | some b =>
          some ({ s with
                  submitted := s.submitted.erase b
                  db := match b.write with | some w => w | none => s.db
                  tokens := if b.write.isSome then s.tokens + 1 else s.tokens
                  expected := s.expected + 1 }, none)
      | none => none
  | .notify =>
      if s.tokens = 0 then none
      else some ({ s with tokens := s.tokens - 1, entry := notifyEntry s.entry }, none)
  | .evict =>
      match s.entry with
      | some e => if e.pin ≤ 0 then some ({ s with entry := none }, none) else none
      | none => none

/-- Runs a schedule; collects the values returned by `get`s together with the ghost `latest` at
the moment of the return.  `none` if some event of the schedule is not enabled. -/
def run (s : State) : List Ev → Option (State × List (Option Nat × Option Nat))
  | [] => some (s, [])
  | e :: es =>
      match fire s e with
      | none => none
      | some (s', out) =>
          match run s' es with
          | none => none
          | some (s'', outs) =>
              match out with
              | some r => some (s'', (r, s'.latest) :: outs)
              | none => some (s'', outs)

end QbiceVerif.WideCache

/-!
## The wide cache as the code is (since /repo 5fe68af, the repair of finding F9)

`WideCacheR` is `WideCache` plus the write-generation counter of `fixes/wide-cache-fill-generation.diff`:
* `gen` – `write_generation: AtomicU64`, bumped inside the entry-lock critical section of every
  `insert` / `remove` (event `cacheWrite`);
* every iteration of the `get` loop first loads it (`readGen`, the task-local `seen`), then probes;
* with `fix = true` the fill's insert-if-vacant installs the value only if `gen` is still `seen`
  (otherwise nothing is installed and the loop retries) – the code as it is; with `fix = false` the
  comparison is not made, which is the code before 5fe68af (the extra load is then a no-op).
Everything else is copied from `WideCache.fire` step by step.
-/
namespace QbiceVerif.WideCacheR
open QbiceVerif.WideCache (Entry Batch cacheWriteEntry notifyEntry)

inductive Pc where
  | idle
  | loop
  | ready                     -- generation loaded, about to probe
  | probed
  | waiting
  | working
  | read (v : Option Nat)
  | filled
  | writing (v : Option Nat) (updated : Bool)
deriving DecidableEq, Repr

structure Task where
  pc : Pc := .idle
  openB : Option Batch := none
  seen : Nat := 0
deriving DecidableEq, Repr

structure State where
  fix : Bool
  db : Option Nat
  entry : Option Entry
  tasks : List Task
  sf : Option Nat
  submitted : List Batch
  tokens : Nat
  nextEpoch : Nat
  expected : Nat
  gen : Nat
  latest : Option Nat         -- ghost: value of the most recent `cacheWrite` (or the initial store content)
deriving DecidableEq, Repr

def init (fix : Bool) (db0 : Option Nat) (ntasks : Nat) : State :=
  { fix, db := db0, entry := none, tasks := List.replicate ntasks {}, sf := none, submitted := [],
    tokens := 0, nextEpoch := 0, expected := 0, gen := 0, latest := db0 }

inductive Ev where
  | begin (t : Nat)
  | put (t : Nat) (v : Option Nat)
  | cacheWrite (t : Nat)
  | submit (t : Nat)
  | readGen (t : Nat)
  | probe (t : Nat)
  | sfEnter (t : Nat)
  | sfWake (t : Nat)
  | readDb (t : Nat)
  | fill (t : Nat)
  | sfLeave (t : Nat)
  | commit
  | notify
  | evict
deriving DecidableEq, Repr

def setTask (s : State) (t : Nat) (x : Task) : State := { s with tasks := s.tasks.set t x }

def fire (s : State) : Ev → Option (State × Option (Option Nat))
  | .begin t =>
      match s.tasks[t]? with
      | some ⟨.idle, none, sn⟩ =>
          some ({ setTask s t ⟨.idle, some ⟨s.nextEpoch, none⟩, sn⟩ with nextEpoch := s.nextEpoch + 1 }, none)
      | _ => none
  | .put t v =>
      match s.tasks[t]? with
      | some ⟨.idle, some b, sn⟩ =>
          some (setTask s t ⟨.writing v b.write.isNone, some { b with write := some v }, sn⟩, none)
      | _ => none
  | .cacheWrite t =>
      match s.tasks[t]? with
      | some ⟨.writing v u, ob, sn⟩ =>
          some ({ setTask s t ⟨.idle, ob, sn⟩ with
                  entry := cacheWriteEntry s.entry v u, latest := v, gen := s.gen + 1 }, none)
      | _ => none
  | .submit t =>
      match s.tasks[t]? with
      | some ⟨.idle, some b, sn⟩ =>
          some ({ setTask s t ⟨.idle, none, sn⟩ with submitted := s.submitted ++ [b] }, none)
      | _ => none
  | .readGen t =>
      match s.tasks[t]? with
      | some ⟨.idle, ob, _⟩ => some (setTask s t ⟨.ready, ob, s.gen⟩, none)
      | some ⟨.loop, ob, _⟩ => some (setTask s t ⟨.ready, ob, s.gen⟩, none)
      | _ => none
  | .probe t =>
      match s.tasks[t]? with
      | some ⟨.ready, ob, sn⟩ =>
          match s.entry with
          | some e => some (setTask s t ⟨.idle, ob, sn⟩, some e.val)
          | none => some (setTask s t ⟨.probed, ob, sn⟩, none)
      | _ => none
  | .sfEnter t =>
      match s.tasks[t]? with
      | some ⟨.probed, ob, sn⟩ =>
          match s.sf with
          | none => some ({ setTask s t ⟨.working, ob, sn⟩ with sf := some t }, none)
          | some _ => some (setTask s t ⟨.waiting, ob, sn⟩, none)
      | _ => none
  | .sfWake t =>
      match s.tasks[t]? with
      | some ⟨.waiting, ob, sn⟩ => some (setTask s t ⟨.loop, ob, sn⟩, none)
      | _ => none
  | .readDb t =>
      match s.tasks[t]? with
      | some ⟨.working, ob, sn⟩ => some (setTask s t ⟨.read s.db, ob, sn⟩, none)
      | _ => none
  | .fill t =>
      match s.tasks[t]? with
      | some ⟨.read v, ob, sn⟩ =>
          let e' := match s.entry with
            | none => if s.fix && sn != s.gen then none else some { val := v, pin := 0 }
            | some e => some e
          some ({ setTask s t ⟨.filled, ob, sn⟩ with entry := e' }, none)
      | _ => none
  | .sfLeave t =>
      match s.tasks[t]? with
      | some ⟨.filled, ob, sn⟩ => some ({ setTask s t ⟨.loop, ob, sn⟩ with sf := none }, none)
      | _ => none
  | .commit =>
      match s.submitted.find? (fun b => b.epoch = s.expected) with
      | some b =>
          some ({ s with
                  submitted := s.submitted.erase b
                  db := match b.write with | some w => w | none => s.db
                  tokens := if b.write.isSome then s.tokens + 1 else s.tokens
                  expected := s.expected + 1 }, none)
      | none => none
  | .notify =>
      if s.tokens = 0 then none
      else some ({ s with tokens := s.tokens - 1, entry := notifyEntry s.entry }, none)
  | .evict =>
      match s.entry with
      | some e => if e.pin ≤ 0 then some ({ s with entry := none }, none) else none
      | none => none

/-- a task's open batch counts as "written to the cache" once it mentions the key, except while the
task sits between the first `put` of the batch and its `cacheWrite` -/
def firstPending (t : Task) : Bool :=
  match t.pc with
  | .writing _ true => true
  | _ => false

def cwOpen (t : Task) : Option Batch :=
  match t.openB with
  | some b => if b.write.isSome && !firstPending t then some b else none
  | none => none

/-- The usage assumption under which "latest write" is well defined across tasks: writes of the key
reach the cache in batch-epoch order.  `cacheWrite t` is *ordered* if every other uncommitted batch
that has already written the key to the cache has a smaller epoch than `t`'s batch. -/
def ordered (s : State) (t : Nat) : Bool :=
  match s.tasks[t]? with
  | some u =>
      match u.openB with
      | some b =>
          s.submitted.all (fun b' => !b'.write.isSome || decide (b'.epoch < b.epoch)) &&
          (List.range s.tasks.length).all (fun j =>
            j == t ||
            match s.tasks[j]? with
            | some u' => match cwOpen u' with
                         | some b' => decide (b'.epoch < b.epoch)
                         | none => true
            | none => true)
      | none => true
  | none => true

def guardOk (s : State) : Ev → Bool
  | .cacheWrite t => ordered s t
  | _ => true

/-- Runs a schedule in which every `cacheWrite` is ordered (`none` otherwise, or when an event is not
enabled); collects (returned value, `latest`). -/
def run (s : State) : List Ev → Option (State × List (Option Nat × Option Nat))
  | [] => some (s, [])
  | e :: es =>
      if guardOk s e = false then none else
      match fire s e with
      | none => none
      | some (s', out) =>
          match run s' es with
          | none => none
          | some (s'', outs) =>
              match out with
              | some r => some (s'', (r, s'.latest) :: outs)
              | none => some (s'', outs)

/-- the same without the order requirement (used to show that it is needed) -/
def runAny (s : State) : List Ev → Option (State × List (Option Nat × Option Nat))
  | [] => some (s, [])
  | e :: es =>
      match fire s e with
      | none => none
      | some (s', out) =>
          match runAny s' es with
          | none => none
          | some (s'', outs) =>
              match out with
              | some r => some (s'', (r, s'.latest) :: outs)
              | none => some (s'', outs)

/-- the schedule assumption as a predicate on a schedule: every `cacheWrite` is `ordered` in the state in which
it is fired (`run` = `runAny` on such schedules, `none` otherwise) -/
def orderedSched : State → List Ev → Bool
  | _, [] => true
  | s, e :: es =>
      match fire s e with
      | some (s', _) => guardOk s e && orderedSched s' es
      | none => true

end QbiceVerif.WideCacheR
