/-
Nested interned handles (properties C12 / C15): `storage/src/intern.rs  impl Encode/Decode for Interned<T>`
composed with the container impls of `/repo/crates/serialize`, for values in which the payload of an
interned handle contains interned handles itself, to any depth and with any sharing (trees / DAGs).

The code, as it is:

```
impl Encode for Interned<T>:   h = interner.hash_128(value)
                               first = session.SeenInterned.insert((T::STABLE_TYPE_ID, h))   // BEFORE the payload
                               if first { emit_u8(0); value.encode(.., session) }            // same session, recursively
                               else     { emit_u8(1); h.encode(..) }
impl Decode for Interned<T>:   tag 0 => { let v = T::decode(.., session)?;                   // payload first: inner handles are
                                          interner.intern(v) }                               // interned while it is read; the outer
                                                                                             // value enters the table AFTER it
                               tag 1 => interner.get_from_hash::<T>(h).expect(..)            // a miss panics
                               _     => InvalidData
```

* there is no decoding table of its own: the "table" is the plugin's `Interner` (weak entries keyed by
  (stable type id, 128-bit hash)); `intern` returns the allocation that is already alive under the key (the
  freshly decoded payload is dropped) or files the new one;
* the seen set is one per top-level `encode` call and is shared by everything written in that call: a
  value first written *inside* some handle's payload is a back-reference when it occurs later *outside*
  it, and the other way round;
* the id of a handle is in the seen set while its own payload is being written, so a payload that
  contained a handle with the id of one of its ancestors would write a reference to a handle the decoder
  has not finished (the decoder registers it only after the payload): `get_from_hash` would miss and
  panic.  Values are finite trees (an `Arc` payload cannot contain itself), so this needs two *different*
  values with one (type id, hash): it is excluded exactly by the no-collision hypothesis (proved:
  `Lemmas/CodecNested`, the `anc` argument).

Universe: `NTy` = any handle-free type of the C12 universe (`plain`, delegated to `Codec.encode/decode`)
| `Interned<T>` (`handle tid`: the payload type is looked up by stable type id in the environment `env`,
which is how recursive Rust types such as `Node { kids: Vec<Interned<Node>> }` are expressed) | `Vec`-like
sequences | `Option` | tuples / structs | enums.  Because types may be recursive the decoder takes `fuel`
(every call consumes one unit; `need v` units suffice for the encoding of `v`: part of the theorems).

Allocations are modelled by identities: the decoder-side interner is a list of slots, the slot index
is the identity of the `Arc` allocation; a decoded value `DVal` carries the slot of every handle.
Handles produced by a running decode stay alive until the top-level call returns: since /repo commit 8f43b2a the decode
session holds a clone of each (`keep = true`, the default everywhere); `keep = false` is the decoder before that
commit, where the allocations made while reading a payload died when `intern` returned an equal live value and
dropped the payload (finding F61).

Imports nothing outside core (+ `Model/Codec`).
-/
import QbiceVerif.Model.Codec

namespace QbiceVerif.Codec.Nested

open QbiceVerif.Codec

/-- types: `handle tid` is `Interned<T>` with `T::STABLE_TYPE_ID = tid`; `T` itself is `env tid` -/
inductive NTy
  | plain (t : Ty)
  | handle (tid : Nat)
  | seq (t : NTy)
  | opt (t : NTy)
  | tuple (ts : List NTy)
  | enum (variants : List NTy)     -- payload of variant i is the i-th entry (a `tuple` of its fields)
deriving Inhabited

/-- values (what `==` compares: a handle is its type id and its payload) -/
inductive NVal
  | plain (v : Val)
  | handle (tid : Nat) (p : NVal)
  | list (vs : List NVal)          -- sequences, tuples, structs
  | tagged (i : Nat) (p : NVal)    -- `None` = tagged 0 (list []), `Some v` = tagged 1 v, enum variant i
deriving Inhabited

/-- decoded values: every handle carries the identity (`slot`) of the allocation it points to -/
inductive DVal
  | plain (v : Val)
  | handle (tid slot : Nat) (p : DVal)
  | list (vs : List DVal)
  | tagged (i : Nat) (p : DVal)
deriving Inhabited

mutual
  def DVal.erase : DVal → NVal
    | .plain v => .plain v
    | .handle tid _ p => .handle tid p.erase
    | .list vs => .list (DVal.eraseL vs)
    | .tagged i p => .tagged i p.erase
  def DVal.eraseL : List DVal → List NVal
    | [] => []
    | v :: vs => v.erase :: DVal.eraseL vs
end

mutual
  /-- every handle occurring in a value, at any depth: (type id, payload) -/
  def NVal.handles : NVal → List (Nat × NVal)
    | .plain _ => []
    | .handle tid p => (tid, p) :: p.handles
    | .list vs => NVal.handlesL vs
    | .tagged _ p => p.handles
  def NVal.handlesL : List NVal → List (Nat × NVal)
    | [] => []
    | v :: vs => v.handles ++ NVal.handlesL vs
end

mutual
  /-- every handle occurring in a decoded value, at any depth: (type id, slot, payload) -/
  def DVal.handles : DVal → List (Nat × Nat × DVal)
    | .plain _ => []
    | .handle tid s p => (tid, s, p) :: p.handles
    | .list vs => DVal.handlesL vs
    | .tagged _ p => p.handles
  def DVal.handlesL : List DVal → List (Nat × Nat × DVal)
    | [] => []
    | v :: vs => v.handles ++ DVal.handlesL vs
end

mutual
  /-- the handles of a decoded value, not descending into allocations older than slot `n` (an allocation that existed
      before the running decode is returned as it is; what is inside it was not produced by this decode) -/
  def DVal.handlesAbove (n : Nat) : DVal → List (Nat × Nat × DVal)
    | .plain _ => []
    | .handle tid s p => (tid, s, p) :: (if s < n then [] else p.handlesAbove n)
    | .list vs => DVal.handlesAboveL n vs
    | .tagged _ p => p.handlesAbove n
  def DVal.handlesAboveL (n : Nat) : List DVal → List (Nat × Nat × DVal)
    | [] => []
    | v :: vs => v.handlesAbove n ++ DVal.handlesAboveL n vs
end

mutual
  /-- fuel the decoder needs for the encoding of a value (also the size measure of the proofs) -/
  def NVal.need : NVal → Nat
    | .plain _ => 1
    | .handle _ p => 1 + p.need
    | .list vs => 1 + NVal.needL vs
    | .tagged _ p => 1 + p.need
  def NVal.needL : List NVal → Nat
    | [] => 0
    | v :: vs => 1 + v.need + NVal.needL vs
end

def isNone : NVal → Bool
  | .list [] => true
  | _ => false

mutual
  /-- `wtN env t v`: `v` is a value of the Rust type described by `t`.  Plain parts have no skipped
      field (skipped fields are the subject of `decode_encode`; a handle's hash covers the whole value). -/
  def wtN (env : Nat → NTy) : NTy → NVal → Bool
    | t, .plain v => (match t with | .plain pt => wt pt v && pt.noSkip | _ => false)
    | t, .handle tid p => (match t with | .handle tid' => tid == tid' | _ => false) && wtN env (env tid) p
    | t, .list vs => (match t with
        | .seq et => decide (vs.length < 2 ^ 64) && wtSeqN env et vs
        | .tuple ts => wtTupleN env ts vs
        | _ => false)
    | t, .tagged i p => (match t with
        | .opt et => if i = 0 then isNone p else i == 1 && wtN env et p
        | .enum vts => decide (i < 2 ^ 64) && (match vts[i]? with | some vt => wtN env vt p | none => false)
        | _ => false)
  def wtSeqN (env : Nat → NTy) : NTy → List NVal → Bool
    | _, [] => true
    | t, v :: vs => wtN env t v && wtSeqN env t vs
  def wtTupleN (env : Nat → NTy) : List NTy → List NVal → Bool
    | ts, [] => ts.isEmpty
    | ts, v :: vs => (match ts with | t :: ts' => wtN env t v && wtTupleN env ts' vs | [] => false)
end

/-! ## Encoder -/

abbrev Seen := List (Nat × Nat)

mutual
  /-- `Encode::encode(value, encoder, plugin, session)`: bytes written and the session's seen set
      afterwards.  `hash tid p` = `interner.hash_128(payload)` of a handle of type `tid`. -/
  def enc (env : Nat → NTy) (hash : Nat → NVal → Nat) : NTy → NVal → Seen → Bytes × Seen
    | t, .plain v, seen => (match t with | .plain pt => (encode pt v, seen) | _ => ([], seen))
    | _, .handle tid p, seen =>
      let h := hash tid p
      if seen.contains (tid, h) then (1 :: encHash h, seen)
      else
        -- `insert` first, then the payload in the same session
        let r := enc env hash (env tid) p ((tid, h) :: seen)
        (0 :: r.1, r.2)
    | t, .list vs, seen => (match t with
        | .seq et => let r := encSeq env hash et vs seen; (encVarint vs.length ++ r.1, r.2)
        | .tuple ts => encTuple env hash ts vs seen
        | _ => ([], seen))
    | t, .tagged i p, seen => (match t with
        | .opt et => if i = 0 then ([0], seen) else let r := enc env hash et p seen; (1 :: r.1, r.2)
        | .enum vts => (match vts[i]? with
            | some vt => let r := enc env hash vt p seen; (encVarint i ++ r.1, r.2)
            | none => ([], seen))
        | _ => ([], seen))
  def encSeq (env : Nat → NTy) (hash : Nat → NVal → Nat) : NTy → List NVal → Seen → Bytes × Seen
    | _, [], seen => ([], seen)
    | t, v :: vs, seen =>
      let r1 := enc env hash t v seen
      let r2 := encSeq env hash t vs r1.2
      (r1.1 ++ r2.1, r2.2)
  def encTuple (env : Nat → NTy) (hash : Nat → NVal → Nat) : List NTy → List NVal → Seen → Bytes × Seen
    | _, [], seen => ([], seen)
    | ts, v :: vs, seen => (match ts with
        | t :: ts' =>
          let r1 := enc env hash t v seen
          let r2 := encTuple env hash ts' vs r1.2
          (r1.1 ++ r2.1, r2.2)
        | [] => ([], seen))
end

/-- `Encoder::encode(&value)`: a fresh session per top-level call -/
def encodeTop (env : Nat → NTy) (hash : Nat → NVal → Nat) (t : NTy) (v : NVal) : Bytes := (enc env hash t v []).1

/-! ## Decoder -/

/-- The decoder-side interner: slots `(type id, hash) ↦ payload`; the slot index is the identity of the
    allocation.  The payload is stored as decoded (`DVal`): the handles inside an allocation are
    themselves pointers to slots. -/
abbrev NInterner := List ((Nat × Nat) × DVal)

def NInterner.find (I : NInterner) (k : Nat × Nat) : Option (Nat × DVal) :=
  match I with
  | [] => none
  | (k', v) :: rest => if k' = k then some (rest.length, v) else NInterner.find rest k

inductive NErr
  | eof | invalid | panic | outOfFuel
  deriving DecidableEq, Repr

def NErr.of : Err → NErr
  | .eof => .eof
  | .invalid => .invalid
  | .panic => .panic

abbrev DR (α : Type) := Except NErr (α × Bytes × NInterner)

mutual
  /-- `Decode::decode(decoder, plugin, session)`.  `keep = true` is the code as it is since /repo commit 8f43b2a
      (finding F61 repaired: `DecodedInterned` in the decode session keeps every produced handle alive until the
      top-level call returns); `keep = false` is the decoder before it, kept as a historical witness. -/
  def dec (keep : Bool) (env : Nat → NTy) (hash : Nat → NVal → Nat) : Nat → NTy → Bytes → NInterner → DR DVal
    | 0, _, _, _ => .error .outOfFuel
    | _ + 1, .plain t, bs, I =>
      match decode true t bs with
      | .ok (v, bs) => .ok (.plain v, bs, I)
      | .error e => .error (.of e)
    | fuel + 1, .handle tid, bs, I =>
      match readByte bs with
      | .error e => .error (.of e)
      | .ok (tag, bs) =>
        if tag = 0 then
          -- `WiredInterned::Source`: the payload first (its handles are interned on the way) …
          match dec keep env hash fuel (env tid) bs I with
          | .error e => .error e
          | .ok (p, bs, I1) =>
            -- … then `interner.intern(payload)`: the allocation alive under the key wins
            let k := (tid, hash tid p.erase)
            match I1.find k with
            | some (slot, p') =>
              -- the decoded payload is dropped.  Repaired decoder (/repo 8f43b2a): the session holds a clone of every
              -- handle produced so far, so what was allocated while the payload was read stays alive.  Historical
              -- decoder: the payload was its only owner — those allocations die with it (their entries are dead).
              .ok (.handle tid slot p', bs, if keep then I1 else I1.drop (I1.length - I.length))
            | none => .ok (.handle tid I1.length p, bs, (k, p) :: I1)
        else if tag = 1 then
          -- `WiredInterned::Reference`: `get_from_hash(..).expect(..)`
          match decHash bs with
          | .error e => .error (.of e)
          | .ok (h, bs) =>
            match I.find (tid, h) with
            | some (slot, p') => .ok (.handle tid slot p', bs, I)
            | none => .error .panic
        else .error .invalid
    | fuel + 1, .seq t, bs, I =>
      match decVarint 64 bs with
      | .error e => .error (.of e)
      | .ok (n, bs) =>
        match decSeq keep env hash fuel t n bs I with
        | .error e => .error e
        | .ok (vs, bs, I) => .ok (.list vs, bs, I)
    | fuel + 1, .opt t, bs, I =>
      match readByte bs with
      | .error e => .error (.of e)
      | .ok (b, bs) =>
        if b != 0 then
          match dec keep env hash fuel t bs I with
          | .error e => .error e
          | .ok (p, bs, I) => .ok (.tagged 1 p, bs, I)
        else .ok (.tagged 0 (.list []), bs, I)
    | fuel + 1, .tuple ts, bs, I =>
      match decTuple keep env hash fuel ts bs I with
      | .error e => .error e
      | .ok (vs, bs, I) => .ok (.list vs, bs, I)
    | fuel + 1, .enum vts, bs, I =>
      match decVarint 64 bs with
      | .error e => .error (.of e)
      | .ok (i, bs) =>
        match vts[i]? with
        | none => .error .invalid
        | some vt =>
          match dec keep env hash fuel vt bs I with
          | .error e => .error e
          | .ok (p, bs, I) => .ok (.tagged i p, bs, I)
  /-- `for _ in 0..len { vec.push(T::decode(..)?) }` -/
  def decSeq (keep : Bool) (env : Nat → NTy) (hash : Nat → NVal → Nat) : Nat → NTy → Nat → Bytes → NInterner → DR (List DVal)
    | _, _, 0, bs, I => .ok ([], bs, I)
    | 0, _, _ + 1, _, _ => .error .outOfFuel
    | fuel + 1, t, n + 1, bs, I =>
      match dec keep env hash fuel t bs I with
      | .error e => .error e
      | .ok (v, bs, I) =>
        match decSeq keep env hash fuel t n bs I with
        | .error e => .error e
        | .ok (vs, bs, I) => .ok (v :: vs, bs, I)
  def decTuple (keep : Bool) (env : Nat → NTy) (hash : Nat → NVal → Nat) : Nat → List NTy → Bytes → NInterner → DR (List DVal)
    | _, [], bs, I => .ok ([], bs, I)
    | 0, _ :: _, _, _ => .error .outOfFuel
    | fuel + 1, t :: ts, bs, I =>
      match dec keep env hash fuel t bs I with
      | .error e => .error e
      | .ok (v, bs, I) =>
        match decTuple keep env hash fuel ts bs I with
        | .error e => .error e
        | .ok (vs, bs, I) => .ok (v :: vs, bs, I)
end

/-! ## Histories on one long-lived interner

The real interner keeps a DEAD weak entry under (type id, hash) after the last handle to a value is dropped,
until the next vacuum.  `NInterner` holds live entries only: the model treats a dead entry as an absent one —
which is what the code does (`intern` / `intern_unsized`: an entry whose `upgrade` fails is replaced by the fresh
allocation; `get_from_hash`: `None`; C15's LTS models exactly these steps).  So after any history of encode /
decode / drop / vacuum steps the decoder-side interner *is*, for the model, the interner that interning the
values alive at that moment leaves behind: -/

/-- the interner left behind by decoding (= interning every part of) the values of the list, one after the other -/
def aliveInterner (env : Nat → NTy) (hash : Nat → NVal → Nat) (fuel : Nat) : List (NTy × NVal) → NInterner → Option NInterner
  | [], I => some I
  | (t, v) :: rest, I =>
    match dec true env hash fuel t (encodeTop env hash t v) I with
    | .ok (_, _, I') => aliveInterner env hash fuel rest I'
    | .error _ => none

end QbiceVerif.Codec.Nested
