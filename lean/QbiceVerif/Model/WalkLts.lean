import QbiceVerif.Model.EngineLts

/-!
# `WK` — a walk over a backward-edge set on `W` worker threads (finding F60)

The fourth LTS of C02.  It models what `TS` (Model/EngineLts.lean) leaves out: `TS.iterBegin` /
`TS.iterEnd` treat an iteration as something a *thread* does, but the walks of the engine are done
by *tasks* of an async runtime, which can be parked while the iterator — and with it the
`parking_lot` read guards of the set — is alive:

* `dirty_worker.rs process_task`: `for caller in get_backward_edges_unchecked(..)` with
  `tokio::task::yield_now().await` every 16 edges (and two more awaits per edge);
* `backward_projection.rs invoke_backward_projections`: the same loop shape with
  `get_query_kind(..).await` per edge;
* `database.rs CompressedBackwardEdgeSet::iter`: the iterator owns the tier guard `self.0.read()`
  and, for the small tier, the vector guard `vec_lock.read()`;
* `database.rs insert_element` / `remove_element` (called by `set_computed` when a re-executed
  caller is published): `vec_lock.write()` — a synchronous `parking_lot` call inside an `async fn`:
  the calling WORKER THREAD blocks, the task does not yield.

The model: `W` worker threads; every task is `queued` (in a run queue: never polled, or parked by
`yield_now`), `running` (being polled by a worker) or `done`.  A queued task needs a free worker
(`busy < W`) to be polled again.  A writer that is `running` can complete only while nobody holds
the read guards; until then it stays `running`, i.e. it keeps its worker (that is the blocked thread).
`fixed = false` is the code before eaa75a9 (the iterator lives across the yields), `fixed = true`
the code since (both loops drain the iterator into a `Vec` before the first await).

Abstractions (all on the permissive side for the repaired system, whose theorems therefore cover
more behaviours than the code has):
* any free worker may poll any queued task (tokio: only the worker in whose local queue / deferred
  list the task sits, or a worker that steals it — fewer possibilities);
* a walker may yield after any number of edges, at most `k` times (`k` any number, per task; the
  code: after every 16th edge, so `k = ⌊len / 16⌋`);
* the set is the small tier: one vector behind one `RwLock` (the large tier blocks per shard);
* `walkBegin` gives the walker the content at that event (`todo := content`): the iterator owns the vector's read
  guard while it is read/drained — `RI` (Model/RelockIter.lean) proves that such an iterator returns exactly that
  content (`guarded_iter_is_snapshot`) and that one re-locking per `next()` does not (`relocking_iter_misses_present_element`);
* taking the read guards is always possible between two events (a writer holds its lock only inside
  one event); `parking_lot` letting a *waiting* writer keep new readers out only removes behaviours
  of the as-is system and is irrelevant to the witness (its walker is the first to take the lock).
-/

namespace QbiceVerif.Lts.WK

inductive St
  | queued | running | done
deriving DecidableEq, Repr, Inhabited

inductive Role
  /-- `process_task` / `invoke_backward_projections` over the set -/
  | walker
  /-- `set_computed` of a re-executed caller: `insert_element x` (`ins = true`) / `remove_element x` -/
  | writer (ins : Bool) (x : Nat)
deriving DecidableEq, Repr, Inhabited

structure Task where
  role : Role
  st : St
  /-- walker: how many more times it will park at `yield_now` -/
  k : Nat
  /-- walker: `iter()` was called -/
  begun : Bool
  /-- holds the read guards of the set (as-is: from `iter()` until the iterator is dropped) -/
  holds : Bool
  /-- walker: edges not visited yet / visited so far -/
  todo : List Nat
  visited : List Nat
  /-- ghost: the content of the set when `iter()` took the guards -/
  snap : List Nat
deriving DecidableEq, Repr, Inhabited

structure State where
  /-- worker threads of the runtime -/
  W : Nat
  /-- `false`: the iterator (and its guards) lives across the yields; `true`: snapshot before the first await -/
  fixed : Bool
  n : Nat
  task : Nat → Task
  content : List Nat
  /-- ghost: completed set operations in the order of their completing events (as in `TS`) -/
  hist : List (Nat × TS.Op × TS.Ret)

def sumTo : Nat → (Nat → Nat) → Nat
  | 0, _ => 0
  | n + 1, f => sumTo n f + f n

/-- workers that are polling a task (a writer blocked in `write()` included) -/
def State.busy (s : State) : Nat := sumTo s.n fun i => if (s.task i).st = .running then 1 else 0

/-- holders of the read guards -/
def State.readers (s : State) : Nat := sumTo s.n fun i => if (s.task i).holds = true then 1 else 0

inductive Ev
  /-- a free worker polls a queued task (first poll, or after `yield_now`) -/
  | resume (i : Nat)
  /-- `get_backward_edges_unchecked(..)` / `iter()`: the guards are taken; repaired: `.collect()` and drop -/
  | walkBegin (i : Nat)
  /-- the next `c` edges are visited, then `yield_now().await` returns `Pending`: the task is parked -/
  | walkYield (i c : Nat)
  /-- the remaining edges are visited; the iterator (as-is: and its guards) is dropped -/
  | walkEnd (i : Nat)
  /-- `insert_element` / `remove_element`: `vec_lock.write()` granted, the operation done -/
  | write (i : Nat)
deriving DecidableEq, Repr, Inhabited

def Ev.task : Ev → Nat
  | .resume i | .walkBegin i | .walkYield i _ | .walkEnd i | .write i => i

def State.set (s : State) (i : Nat) (t : Task) : State :=
  { s with task := fun j => if j = i then t else s.task j }

def step (s : State) : Ev → Option State
  | .resume i =>
    if i < s.n ∧ (s.task i).st = .queued ∧ s.busy < s.W then
      some (s.set i { s.task i with st := .running })
    else none
  | .walkBegin i =>
    let t := s.task i
    if i < s.n ∧ t.role = .walker ∧ t.st = .running ∧ t.begun = false then
      some { s.set i { t with begun := true, holds := !s.fixed, todo := s.content, snap := s.content } with
             hist := s.hist ++ [(i, .iter, .list s.content)] }
    else none
  | .walkYield i c =>
    let t := s.task i
    if i < s.n ∧ t.role = .walker ∧ t.st = .running ∧ t.begun = true ∧ 0 < t.k then
      some (s.set i { t with st := .queued, k := t.k - 1, visited := t.visited ++ t.todo.take c, todo := t.todo.drop c })
    else none
  | .walkEnd i =>
    let t := s.task i
    if i < s.n ∧ t.role = .walker ∧ t.st = .running ∧ t.begun = true then
      some (s.set i { t with st := .done, holds := false, visited := t.visited ++ t.todo, todo := [] })
    else none
  | .write i =>
    let t := s.task i
    match t.role with
    | .walker => none
    | .writer ins x =>
      -- the write lock is granted only while nobody holds the read guards; until then the task stays
      -- `running`: its worker thread is blocked inside `write()`
      if i < s.n ∧ t.st = .running ∧ s.readers = 0 then
        if ins then
          let (l, r) := TS.insertInto s.content x
          some { s.set i { t with st := .done } with content := l, hist := s.hist ++ [(i, .ins x, .bool r)] }
        else
          some { s.set i { t with st := .done } with
                 content := s.content.erase x, hist := s.hist ++ [(i, .rem x, .bool (decide (x ∈ s.content)))] }
      else none

/-- the tasks of a run: role and yield budget -/
def mkTask (rk : Role × Nat) : Task :=
  { role := rk.1, st := .queued, k := rk.2, begun := false, holds := false, todo := [], visited := [], snap := [] }

def init (W : Nat) (fixed : Bool) (c0 : List Nat) (ts : List (Role × Nat)) : State :=
  { W := W, fixed := fixed, n := ts.length, task := fun i => mkTask (ts.getD i (.walker, 0)),
    content := c0, hist := [] }

inductive Reachable (W : Nat) (fixed : Bool) (c0 : List Nat) (ts : List (Role × Nat)) : State → Prop
  | init : Reachable W fixed c0 ts (init W fixed c0 ts)
  | step {s s' : State} (ev : Ev) : Reachable W fixed c0 ts s → step s ev = some s' → Reachable W fixed c0 ts s'

inductive Run : State → List Ev → State → Prop
  | nil (s : State) : Run s [] s
  | cons {s s' s'' : State} {ev : Ev} {evs : List Ev} : step s ev = some s' → Run s' evs s'' → Run s (ev :: evs) s''

def run (s : State) : List Ev → Option State
  | [] => some s
  | ev :: rest => (step s ev).bind (run · rest)

/-- task `i` has an enabled event (the parameter `c` of `walkYield` does not matter for being enabled) -/
def State.canStep (s : State) (i : Nat) : Bool :=
  (step s (.resume i)).isSome || (step s (.walkBegin i)).isSome || (step s (.walkYield i 0)).isSome ||
  (step s (.walkEnd i)).isSome || (step s (.write i)).isSome

/-- no task has an enabled event -/
def State.stuck (s : State) : Bool := (List.range s.n).all fun i => !s.canStep i

/-- some request has not completed -/
def State.unfinished (s : State) : Bool := (List.range s.n).any fun i => (s.task i).st != .done

/-- the variant: remaining events of one task -/
def Task.m (t : Task) : Nat :=
  if t.st = .done then 0 else 2 * t.k + (if t.begun = true then 0 else 1) + (if t.st = .queued then 1 else 0) + 1

def mu (s : State) : Nat := sumTo s.n fun i => (s.task i).m

end QbiceVerif.Lts.WK
