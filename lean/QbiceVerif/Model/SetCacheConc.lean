/-
Concurrent model of `CacheKeyOfSetMap` (crates/storage/src/key_of_set_map/cache.rs, as it is since
/repo 73760b5) for ONE set key and ANY number of foreground tasks whose operations are multi-step.

Shared state of the code that is mirrored
* `db`            – store image of the set (a scan is a snapshot of it);
* `log`           – the key's staging log, in the order the operations were appended (`seq`);
                    `get_snapshot` sorts by `(epoch, seq)` and lets the last operation on an element win
                    (`snapshotOf`, stable sort by epoch of the append order);
* `entries`/`cur` – the cached `Arc<RwLock<Entry>>`: an arena of entries (a task may keep an `Arc` to an
                    entry that has been evicted since) and the index of the one `cache.get` returns;
* `gen`           – `write_generation` (ONE counter for all keys of the map: `otherBump` is a write to
                    another key);
* `bat`           – the write batches that are not committed yet (open or submitted), projected on the key;
* the write-behind pipeline as in `Model/SetCache`: `commit` (epoch order), `notify` (`FlushUpTo(epoch)`).

Foreground steps, in the order of the code:
`get` / iteration (`get_entry` + `get`):
  `gStart` (invocation) → loop { `gLoad` (generation load) → `gSnap` (staging snapshot) → `gLookup`
  (`cache.get`: hit → `got`; miss → `missed`) → [`gRetry`: the task was a WAITER of the single flight and
  goes round the loop again] | [`gScan` (`fetch_entry`: store scan) → `gInstall` (build `InMemory(scan ∪
  added ∖ removed)` or, past the threshold, `TooLarge` + the `Spilled` pieces; `cache.entry`: insert if vacant
  AND (since 73760b5, switch `fix`) the generation is still the one loaded)] } → `gRead` (`Spilled` iterator |
  `entry.read()`: in-memory set | `TooLarge`: store scan NOW merged with the snapshot).
`insert` / `remove` (`put_set` + `apply_op`):
  `stage` (record in the batch, append to the staging log) → `bump` (`write_generation += 1`) → `wLookup`
  (`cache.get`: none → return) → `wApply` (in-place update of the set the task got, possibly an evicted one)
  → `wDowngrade` (set grew past the threshold: `TooLarge`).
Background: `commit`, `notify`, `evict` (the cache entry is never pinned), `otherBump`.

Deliberate over-approximations (the model has MORE behaviours than the code, all theorems are safety
properties): the single flight is not represented – any number of tasks may fetch at once, and a task that
missed may go round the loop (`gRetry`) at any time; the staging log is never evicted (an evictable log is
empty: `dirty = 0`, proved in the sequential model) and its `dirty` counter is therefore not represented.

Ghosts: `truth` – the set when every write takes effect at its `stage`; per task `must`/`may` – the
elements that every / some linearisation of the writes overlapping the task's current `get` puts into the
set (see `Props/C09.lean`).
-/
import QbiceVerif.Model.SetCache

namespace QbiceVerif.SetCacheConc
open QbiceVerif.SetCache (LogOp SEntry Snapshot sinsert sremove lastStep streamIter applyOps flushLog fetchFrom)

structure CBatch where
  epoch : Nat
  ops : List (Nat × Bool)          -- operations on the key in issue order (the batch keeps the last per element)
  submitted : Bool
deriving DecidableEq, Repr

inductive Pc where
  | idle
  | loop
  | loaded
  | snapped (sn : Snapshot)
  | missed (sn : Snapshot)
  | scanned (sn : Snapshot) (sc : List Nat)
  | got (i : Nat) (sn : Snapshot) (sp : Option (List Nat × List Nat))
  | staged (x : Nat) (ins : Bool)
  | bumped (x : Nat) (ins : Bool)
  | applying (i : Nat) (x : Nat) (ins : Bool)
  | downgrade (i : Nat)
deriving DecidableEq, Repr

structure Task where
  pc : Pc := .idle
  openB : Option Nat := none       -- epoch of the task's open batch
  seen : Nat := 0                  -- generation loaded by the current loop iteration
  must : List Nat := []            -- ghost
  may : List Nat := []             -- ghost
deriving DecidableEq, Repr

structure State where
  fix : Bool
  thr : Nat
  db : List Nat
  log : List LogOp
  entries : List SEntry
  cur : Option Nat
  tasks : List Task
  bat : List CBatch
  notifs : List Nat
  nextEpoch : Nat
  expected : Nat
  gen : Nat
  truth : List Nat
deriving DecidableEq, Repr

def init (fix : Bool) (thr : Nat) (db0 : List Nat) (ntasks : Nat) : State :=
  { fix, thr, db := db0, log := [], entries := [], cur := none, tasks := List.replicate ntasks {}, bat := [],
    notifs := [], nextEpoch := 0, expected := 0, gen := 0, truth := db0 }

/-! ### `get_snapshot`: sort by (epoch, seq), last operation on an element wins -/

/-- stable sort by epoch of the append order: one more element is placed after everything ≤ it -/
def sortStep (acc : List LogOp) (a : LogOp) : List LogOp :=
  acc.filter (fun b => decide (b.epoch ≤ a.epoch)) ++ a :: acc.filter (fun b => decide (a.epoch < b.epoch))

def sortLog (log : List LogOp) : List LogOp := log.foldl sortStep []

def snapshotOf (log : List LogOp) : Snapshot := (sortLog log).foldl lastStep ⟨[], []⟩

/-- the `Spilled` merge iterator (as repaired by b91d22f) -/
def spillOut (half rest : List Nat) (sn : Snapshot) : List Nat :=
  half.filter (fun x => x ∉ sn.removed) ++ rest.filter (fun x => x ∉ sn.removed) ++ sn.added

/-! ### tasks -/

/-- the element a task is writing right now (between `stage` and the end of `apply_op`'s in-place update) -/
def Pc.writing : Pc → Option Nat
  | .staged x _ => some x
  | .bumped x _ => some x
  | .applying _ x _ => some x
  | _ => none

def inflight (s : State) : List Nat := s.tasks.filterMap (fun u => u.pc.writing)

/-- ghost bookkeeping of a `stage` of element `x` in every task's `must` / `may` -/
def noteWrite (x : Nat) (u : Task) : Task := { u with must := sremove x u.must, may := sinsert x u.may }

def setTask (s : State) (t : Nat) (u : Task) : State := { s with tasks := s.tasks.set t u }

def applyTo (S : List Nat) (x : Nat) (ins : Bool) : List Nat := if ins then sinsert x S else sremove x S

inductive Ev where
  | begin (t : Nat)
  | submit (t : Nat)
  | stage (t : Nat) (x : Nat) (ins : Bool)
  | bump (t : Nat)
  | wLookup (t : Nat)
  | wApply (t : Nat)
  | wDowngrade (t : Nat)
  | gStart (t : Nat)
  | gLoad (t : Nat)
  | gSnap (t : Nat)
  | gLookup (t : Nat)
  | gRetry (t : Nat)
  | gScan (t : Nat)
  | gInstall (t : Nat)
  | gRead (t : Nat)
  | commit
  | notify
  | evict
  | otherBump
deriving DecidableEq, Repr

/-- what a completed `get` returned, with the ghost bounds of its interval -/
structure Out where
  out : List Nat
  must : List Nat
  may : List Nat
deriving DecidableEq, Repr

/-- One atomic step; `none` = not enabled. -/
def fire (s : State) : Ev → Option (State × Option Out)
  | .begin t =>
      match s.tasks[t]? with
      | some ⟨.idle, none, sn, mu, ma⟩ =>
          some ({ setTask s t ⟨.idle, some s.nextEpoch, sn, mu, ma⟩ with
                  bat := s.bat ++ [⟨s.nextEpoch, [], false⟩], nextEpoch := s.nextEpoch + 1 }, none)
      | _ => none
  | .submit t =>
      match s.tasks[t]? with
      | some ⟨.idle, some e, sn, mu, ma⟩ =>
          some ({ setTask s t ⟨.idle, none, sn, mu, ma⟩ with
                  bat := s.bat.map (fun B => if B.epoch = e then { B with submitted := true } else B) }, none)
      | _ => none
  | .stage t x ins =>
      match s.tasks[t]? with
      | some ⟨.idle, some e, sn, mu, ma⟩ =>
          some ({ s with
                  bat := s.bat.map (fun B => if B.epoch = e then { B with ops := B.ops ++ [(x, ins)] } else B)
                  log := s.log ++ [⟨ins, x, e⟩]
                  truth := applyTo s.truth x ins
                  tasks := (s.tasks.set t ⟨.staged x ins, some e, sn, mu, ma⟩).map (noteWrite x) }, none)
      | _ => none
  | .bump t =>
      match s.tasks[t]? with
      | some ⟨.staged x ins, ob, sn, mu, ma⟩ =>
          some ({ setTask s t ⟨.bumped x ins, ob, sn, mu, ma⟩ with gen := s.gen + 1 }, none)
      | _ => none
  | .wLookup t =>
      match s.tasks[t]? with
      | some ⟨.bumped x ins, ob, sn, mu, ma⟩ =>
          match s.cur with
          | some i => some (setTask s t ⟨.applying i x ins, ob, sn, mu, ma⟩, none)
          | none => some (setTask s t ⟨.idle, ob, sn, mu, ma⟩, none)
      | _ => none
  | .wApply t =>
      match s.tasks[t]? with
      | some ⟨.applying i x ins, ob, sn, mu, ma⟩ =>
          match s.entries[i]? with
          | some (.inMem S) =>
              let S' := applyTo S x ins
              some ({ setTask s t ⟨if S'.length > s.thr then .downgrade i else .idle, ob, sn, mu, ma⟩ with
                      entries := s.entries.set i (.inMem S') }, none)
          | some .tooLarge => some (setTask s t ⟨.idle, ob, sn, mu, ma⟩, none)
          | none => none
      | _ => none
  | .wDowngrade t =>
      match s.tasks[t]? with
      | some ⟨.downgrade i, ob, sn, mu, ma⟩ =>
          some ({ setTask s t ⟨.idle, ob, sn, mu, ma⟩ with entries := s.entries.set i .tooLarge }, none)
      | _ => none
  | .gStart t =>
      match s.tasks[t]? with
      | some ⟨.idle, ob, sn, _, _⟩ =>
          some (setTask s t ⟨.loop, ob, sn, s.truth.filter (fun x => x ∉ inflight s), s.truth ++ inflight s⟩, none)
      | _ => none
  | .gLoad t =>
      match s.tasks[t]? with
      | some ⟨.loop, ob, _, mu, ma⟩ => some (setTask s t ⟨.loaded, ob, s.gen, mu, ma⟩, none)
      | _ => none
  | .gSnap t =>
      match s.tasks[t]? with
      | some ⟨.loaded, ob, sn, mu, ma⟩ => some (setTask s t ⟨.snapped (snapshotOf s.log), ob, sn, mu, ma⟩, none)
      | _ => none
  | .gLookup t =>
      match s.tasks[t]? with
      | some ⟨.snapped snap, ob, sn, mu, ma⟩ =>
          match s.cur with
          | some i => some (setTask s t ⟨.got i snap none, ob, sn, mu, ma⟩, none)
          | none => some (setTask s t ⟨.missed snap, ob, sn, mu, ma⟩, none)
      | _ => none
  | .gRetry t =>
      match s.tasks[t]? with
      | some ⟨.missed _, ob, sn, mu, ma⟩ => some (setTask s t ⟨.loop, ob, sn, mu, ma⟩, none)
      | _ => none
  | .gScan t =>
      match s.tasks[t]? with
      | some ⟨.missed snap, ob, sn, mu, ma⟩ => some (setTask s t ⟨.scanned snap s.db, ob, sn, mu, ma⟩, none)
      | _ => none
  | .gInstall t =>
      match s.tasks[t]? with
      | some ⟨.scanned snap sc, ob, sn, mu, ma⟩ =>
          let r := fetchFrom s.thr sc snap
          let j := s.entries.length
          some ({ setTask s t ⟨.got j snap r.2, ob, sn, mu, ma⟩ with
                  entries := s.entries ++ [r.1]
                  cur := match s.cur with
                    | some i => some i
                    | none => if s.fix && sn != s.gen then none else some j }, none)
      | _ => none
  | .gRead t =>
      match s.tasks[t]? with
      | some ⟨.got i snap sp, ob, sn, mu, ma⟩ =>
          match sp with
          | some (half, rest) => some (setTask s t ⟨.idle, ob, sn, mu, ma⟩, some ⟨spillOut half rest snap, mu, ma⟩)
          | none =>
              match s.entries[i]? with
              | some (.inMem S) => some (setTask s t ⟨.idle, ob, sn, mu, ma⟩, some ⟨S, mu, ma⟩)
              | some .tooLarge => some (setTask s t ⟨.idle, ob, sn, mu, ma⟩, some ⟨streamIter s.db snap, mu, ma⟩)
              | none => none
      | _ => none
  | .commit =>
      match s.bat.find? (fun B => B.submitted && B.epoch == s.expected) with
      | some B =>
          some ({ s with
                  bat := s.bat.filter (fun B' => B'.epoch != s.expected)
                  db := applyOps s.db B.ops
                  notifs := if B.ops.isEmpty then s.notifs else s.notifs ++ [B.epoch]
                  expected := s.expected + 1 }, none)
      | none => none
  | .notify =>
      match s.notifs with
      | e :: rest => some ({ s with notifs := rest, log := flushLog s.log e }, none)
      | [] => none
  | .evict =>
      match s.cur with
      | some _ => some ({ s with cur := none }, none)
      | none => none
  | .otherBump => some ({ s with gen := s.gen + 1 }, none)

/-! ### the usage assumption: writes of ONE ELEMENT are sequential and in batch-epoch order

`stage t x` is *ordered* if no other task is writing `x` right now, and every other uncommitted batch that
holds an operation on `x` has a smaller epoch than `t`'s batch.  Writes of different elements of the key are
not constrained at all (in the engine the key is a callee and the elements are its callers: many tasks add
themselves to one set concurrently, from batches in any epoch order; an element is written by its own task). -/
def lastOn (ops : List (Nat × Bool)) (x : Nat) : Bool := ops.any (fun p => p.1 == x)

def orderedElem (s : State) (t : Nat) (x : Nat) : Bool :=
  match s.tasks[t]? with
  | some u =>
      match u.openB with
      | some e =>
          (List.range s.tasks.length).all (fun j =>
            j == t || match s.tasks[j]? with
                      | some u' => u'.pc.writing != some x
                      | none => true) &&
          s.bat.all (fun B => B.epoch == e || !lastOn B.ops x || decide (B.epoch < e))
      | none => true
  | none => true

def guardOk (s : State) : Ev → Bool
  | .stage t x _ => orderedElem s t x
  | _ => true

/-- Runs a schedule in which every `stage` is ordered; collects what every completed `get` returned. -/
def run (s : State) : List Ev → Option (State × List Out)
  | [] => some (s, [])
  | e :: es =>
      if guardOk s e = false then none else
      match fire s e with
      | none => none
      | some (s', out) =>
          match run s' es with
          | none => none
          | some (s'', outs) =>
              match out with
              | some r => some (s'', r :: outs)
              | none => some (s'', outs)

/-- the same without the usage assumption (to show that it is needed) -/
def runAny (s : State) : List Ev → Option (State × List Out)
  | [] => some (s, [])
  | e :: es =>
      match fire s e with
      | none => none
      | some (s', out) =>
          match runAny s' es with
          | none => none
          | some (s'', outs) =>
              match out with
              | some r => some (s'', r :: outs)
              | none => some (s'', outs)

/-- the usage assumption as a predicate on a schedule: every `stage` is `orderedElem` in the state in which it is
fired (`run` = `runAny` on such schedules, `none` otherwise) -/
def orderedSched : State → List Ev → Bool
  | _, [] => true
  | s, e :: es =>
      match fire s e with
      | some (s', _) => guardOk s e && orderedSched s' es
      | none => true

/-- the ghost `truth` after every prefix of a schedule (for the whole-set witness) -/
def truths (s : State) : List Ev → List (List Nat)
  | [] => [s.truth]
  | e :: es =>
      match fire s e with
      | none => [s.truth]
      | some (s', _) => s.truth :: truths s' es

end QbiceVerif.SetCacheConc
