/-!
# C05 — the computing-table LTS with cancellation, executor panics and linear write batches

Executable model of the resource protocol of `/repo/crates/qbice/src/engine`:

* `computation_graph.rs::query_for`          — frames, `register_callee` / `UndoRegisterCallee`
* `computing.rs`                             — computing table, backward-projection table, the two
                                               lock guards whose `Drop` removes the entry and notifies
* `slow_path.rs::execute_query`              — `catch_unwind` path, the TRANSACTIONAL `.guarded()` block
* `guard.rs`                                 — a dropped guarded future is spawned to completion
* `database.rs::{set_computed, clean_query, done_backward_projection}` — batch taken, writes, submit
* `database/sync.rs`, `input_session.rs`     — phase lock, session batch, epoch bump, commit
* `storage/write_manager/write_behind.rs`    — a batch is `new → submit`; dropping an active batch
                                               panics (`WriteBatch::drop`) and leaves an epoch gap

One **task** is one future as the caller sees it (a user query with the nested `query_for` frames of
the executors it is running, a JoinSet child, or an input session).  A `cancel` is the drop of that
future at an await point; its effect is exactly the drop glue in reverse order of acquisition, and
for a future that is inside `.guarded()` nothing but the hand-over of the remaining steps to a
detached continuation.

Three toggles switch between the code as it WAS (before the fixes d8958c0, 7a67ce5, f2b6893) and the repaired code = the code NOW (`Cfg.fixed`) (`known_findings.d/C05.json`):

* `f11` — `done_backward_projection` creates its batch inside the guarded block (as is: before the
          unguarded `upgrade_to_exclusive().await`);
* `f12` — `input_session()` waits for the phase lock first and creates batch/epoch in a section that is
          not cancelled half-way (originally: batch and epoch bump first, then the unguarded wait for the
          lock; repaired in /repo by 7a67ce5, where the section after the lock contains no await);
* `f40` — the guarded publication blocks keep their own `ActiveComputationGuard` (as is: the detached
          continuation holds no phase guard, an input session can start while it still publishes).

No imports outside core: the driver links as `lean_exe`.
-/

namespace QbiceVerif.CancelLts

abbrev Key := Nat
abbrev Tid := Nat
abbrev Bid := Nat

structure Cfg where
  f11 : Bool
  f12 : Bool
  f40 : Bool
  deriving DecidableEq, Repr

/-- the tree before any repair -/
def Cfg.original : Cfg := ⟨false, false, false⟩
/-- HISTORICAL name: the code as it was when this model was first written (F11, F40 unrepaired; since d8958c0 / f2b6893 the code is `Cfg.fixed`): F12 was repaired in /repo by 7a67ce5 (lock first; the rest of `input_session()` has
    no await any more — the model's guarded state `sG0` is passed without suspension) -/
def Cfg.asIs : Cfg := ⟨false, true, false⟩
def Cfg.fixed : Cfg := ⟨true, true, true⟩

/-- Where the (innermost frame of the) task is suspended. -/
inductive Pc
  /-- `query_for` loop head / fast path: this frame holds nothing but (maybe) an armed undo -/
  | start
  /-- awaiting the `Notified` of somebody else's computing entry for the own key -/
  | waitC
  /-- awaiting the `Notified` of somebody else's backward-projection entry for the own key -/
  | waitB
  /-- holds the `ComputingLockGuard`; repair / executor in progress (unguarded awaits) -/
  | locked
  /-- holds the `ComputingLockGuard`; the executor panicked, the payload is stored (`wait_group.wait()`) -/
  | caught
  /-- inside `.guarded()`, no batch yet -/
  | g0
  /-- inside `.guarded()`, batch active, writes in progress -/
  | g1
  /-- inside `.guarded()`, batch submitted, before `lock_guard.done()` -/
  | g2
  /-- holds the `BackwardProjectionLockGuard`; projections are being re-run (join) -/
  | bpRun
  /-- `done_backward_projection`: awaiting `upgrade_to_exclusive()` — unguarded -/
  | bpUp
  /-- session: `input_session()` called, nothing held -/
  | sInit
  /-- session (as is): batch created, epoch bumped, awaiting the phase write lock — unguarded -/
  | sBumped
  /-- session (repaired): phase write lock held, inside `.guarded()`, before batch/bump -/
  | sG0
  /-- session object exists: phase write lock + batch -/
  | sOpen
  /-- session: inside the guarded `commit` -/
  | sG1
  deriving DecidableEq, Repr

def Pc.guarded : Pc → Bool
  | .g0 | .g1 | .g2 | .sG0 | .sG1 => true
  | _ => false

def Pc.isSession : Pc → Bool
  | .sInit | .sBumped | .sG0 | .sOpen | .sG1 => true
  | _ => false

/-- One `query_for` activation. -/
structure Frame where
  key : Key
  /-- armed `UndoRegisterCallee`: `key` is registered at the computing entry of this caller -/
  undo : Option Key
  /-- holds the `ComputingLockGuard` of `key` -/
  lock : Bool
  /-- holds the `BackwardProjectionLockGuard` of `key` -/
  bp : Bool
  deriving DecidableEq, Repr

structure Task where
  /-- innermost first; `[]` for sessions -/
  frames : List Frame
  pc : Pc
  /-- the active write batch held by the suspended code -/
  batch : Option Bid
  /-- holds an `ActiveComputationGuard` (shared phase lock) -/
  rd : Bool
  /-- holds the exclusive phase lock -/
  wr : Bool
  /-- a continuation spawned by `Guard::drop`; the caller is gone -/
  detached : Bool
  deriving DecidableEq, Repr

inductive Outcome | returned | cancelled | panicked
  deriving DecidableEq, Repr

inductive BSt | fresh | active | submitted | dropped
  deriving DecidableEq, Repr

/-- A computing-table entry (`QueryComputing`): owner and registered callees (`true` = armed undo). -/
structure Entry where
  owner : Tid
  regs : List (Key × Bool)
  deriving DecidableEq, Repr

structure State where
  cfg : Cfg
  tasks : Tid → Option Task
  outcome : Tid → Option Outcome
  comp : Key → Option Entry
  bpl : Key → Option Tid
  bst : Bid → BSt
  nextBid : Bid
  /-- an active batch was dropped: panic in `WriteBatch::drop`, epoch gap in the commit pipeline -/
  aborted : Bool
  epoch : Nat
  /-- the tasks that hold an `ActiveComputationGuard` (shared phase lock) -/
  readers : List Tid
  /-- the session that holds the exclusive phase lock -/
  writer : Option Tid
  /-- writes of a publication that has not been completed (submitted) yet -/
  partialW : Key → Nat
  version : Key → Nat

def upd {β : Type} (f : Nat → β) (a : Nat) (b : β) : Nat → β := fun x => if x = a then b else f x

@[simp] theorem upd_same {β} (f : Nat → β) (a b) : upd f a b a = b := by simp [upd]
@[simp] theorem upd_other {β} (f : Nat → β) (a b x) (h : x ≠ a) : upd f a b x = f x := by simp [upd, h]
theorem upd_apply {β} (f : Nat → β) (a b x) : upd f a b x = if x = a then b else f x := rfl

def init (cfg : Cfg) : State :=
  { cfg, tasks := fun _ => none, outcome := fun _ => none, comp := fun _ => none, bpl := fun _ => none,
    bst := fun _ => .fresh, nextBid := 0, aborted := false, epoch := 0, readers := [], writer := none,
    partialW := fun _ => 0, version := fun _ => 0 }

inductive Ev
  /-- a new query task for `k`.  `clone = false`: a user query (`tracked()` takes the shared phase lock, which
      needs that no session holds the exclusive one); `clone = true`: a JoinSet child that was handed a clone of
      a live guard.  `undo = some c`: the child
      of an unordered repair group of `c` (registers itself at `c`'s entry). -/
  | spawn (t : Tid) (k : Key) (clone : Bool) (undo : Option Key)
  | call (t : Tid) (c : Key)
  | hit (t : Tid)
  | waitC (t : Tid)
  | waitB (t : Tid)
  | wake (t : Tid)
  | lock (t : Tid)
  | gEnter (t : Tid)
  | batchNew (t : Tid)
  | write (t : Tid)
  | submit (t : Tid)
  | finish (t : Tid)
  | panic (t : Tid)
  | resume (t : Tid)
  | bpLock (t : Tid)
  | bpUp (t : Tid)
  | cancel (t : Tid)
  | sStart (t : Tid)
  | sBump (t : Tid)
  | sAcquire (t : Tid)
  | sWrite (t : Tid) (k : Key)
  | sCommit (t : Tid)
  | sFinish (t : Tid)
  deriving DecidableEq, Repr

/-! ### drop glue -/

def eraseReg (regs : List (Key × Bool)) (c : Key) : List (Key × Bool) := regs.erase (c, true)

def defuseReg : List (Key × Bool) → Key → List (Key × Bool)
  | [], _ => []
  | (k, b) :: r, c => if k = c ∧ b = true then (k, false) :: r else (k, b) :: defuseReg r c

/-- `UndoRegisterCallee::drop` (not defused): `abort_callee` on the caller's `QueryComputing`.  When the
    caller's entry is no longer in the table the `Arc<QueryComputing>` is an orphan: no table effect. -/
def unregAt (comp : Key → Option Entry) (caller callee : Key) : Key → Option Entry :=
  match comp caller with
  | some e => upd comp caller (some { e with regs := eraseReg e.regs callee })
  | none => comp

/-- `register_callee`: `callee` is recorded (armed) at the caller's entry -/
def regAt (comp : Key → Option Entry) (caller callee : Key) : Key → Option Entry :=
  match comp caller with
  | some e => upd comp caller (some { e with regs := (callee, true) :: e.regs })
  | none => comp

def regOpt (comp : Key → Option Entry) (u : Option Key) (callee : Key) : Key → Option Entry :=
  match u with
  | some c => regAt comp c callee
  | none => comp

/-- `UndoRegisterCallee::defuse`: the registration stays, the undo is disarmed -/
def defuseAt (comp : Key → Option Entry) (caller callee : Key) : Key → Option Entry :=
  match comp caller with
  | some e => upd comp caller (some { e with regs := defuseReg e.regs callee })
  | none => comp

def defuseOpt (comp : Key → Option Entry) (u : Option Key) (callee : Key) : Key → Option Entry :=
  match u with
  | some c => defuseAt comp c callee
  | none => comp

/-- Drop of one frame: lock guards first (acquired last), then the undo (acquired first). -/
def dropFrame (f : Frame) (comp : Key → Option Entry) (bpl : Key → Option Tid) :
    (Key → Option Entry) × (Key → Option Tid) :=
  let comp1 := if f.lock then upd comp f.key none else comp
  let bpl1 := if f.bp then upd bpl f.key none else bpl
  let comp2 := match f.undo with
    | some c => unregAt comp1 c f.key
    | none => comp1
  (comp2, bpl1)

def dropFrames : List Frame → (Key → Option Entry) → (Key → Option Tid) →
    (Key → Option Entry) × (Key → Option Tid)
  | [], comp, bpl => (comp, bpl)
  | f :: fs, comp, bpl => let r := dropFrame f comp bpl; dropFrames fs r.1 r.2

/-- What a hook trace shows of the glue, in order. -/
inductive Glue
  | unlock (k : Key) | bpunlock (k : Key) | unreg (k : Key) | detach | batchDrop
  deriving DecidableEq, Repr

def frameGlue (f : Frame) : List Glue :=
  (if f.lock then [Glue.unlock f.key] else []) ++ (if f.bp then [Glue.bpunlock f.key] else []) ++
  (match f.undo with | some _ => [Glue.unreg f.key] | none => [])

def framesGlue (fs : List Frame) : List Glue := fs.flatMap frameGlue

/-- Dropping an active batch: `assert!(!self.active)` fails — the process panics (aborts when it happens
    during cleanup) and the commit pipeline never sees this epoch. -/
def dropBatch (s : State) : Option Bid → State
  | some b => { s with bst := upd s.bst b .dropped, aborted := true }
  | none => s

def setTask (s : State) (t : Tid) (T : Task) : State := { s with tasks := upd s.tasks t (some T) }
def endTask (s : State) (t : Tid) (T : Task) (o : Outcome) : State :=
  { s with tasks := upd s.tasks t none,
           outcome := if T.detached then s.outcome else upd s.outcome t (some o),
           readers := if T.rd then s.readers.erase t else s.readers,
           writer := if T.wr then none else s.writer }

/-- `cancel t`: the caller drops the future of task `t` at its current await point. -/
def cancelTask (s : State) (t : Tid) (T : Task) : State :=
  if T.pc.isSession then
    match T.pc with
    | .sInit => endTask s t T .cancelled
    | .sBumped => endTask (dropBatch s T.batch) t T .cancelled
    -- guarded, or the session object is dropped (its `Drop` spawns the commit): a detached continuation
    | .sOpen => { setTask s t { T with pc := .sG1, detached := true } with outcome := upd s.outcome t (some .cancelled) }
    | _ => { setTask s t { T with detached := true } with outcome := upd s.outcome t (some .cancelled) }
  else
    match T.frames with
    | [] => endTask s t T .cancelled
    | top :: rest =>
      if T.pc.guarded then
        -- the guarded block owns lock guard and batch; everything around it is dropped now
        let r := dropFrames ({ top with lock := false, bp := false } :: rest) s.comp s.bpl
        let keepRd := T.rd && s.cfg.f40
        { s with comp := r.1, bpl := r.2,
                 tasks := upd s.tasks t (some { T with frames := [{ top with undo := none }], detached := true, rd := keepRd }),
                 outcome := upd s.outcome t (some .cancelled),
                 readers := if T.rd && !keepRd then s.readers.erase t else s.readers }
      else
        let s1 := dropBatch s T.batch
        let r := dropFrames (top :: rest) s1.comp s1.bpl
        endTask { s1 with comp := r.1, bpl := r.2 } t T .cancelled

def cancelGlue (T : Task) : List Glue :=
  if T.pc.isSession then
    match T.pc with
    | .sInit => []
    | .sBumped => [Glue.batchDrop]
    | _ => [Glue.detach]
  else
    match T.frames with
    | [] => []
    | top :: rest =>
      if T.pc.guarded then Glue.detach :: framesGlue ({ top with lock := false, bp := false } :: rest)
      else (match T.batch with | some _ => [Glue.batchDrop] | none => []) ++ framesGlue (top :: rest)

/-! ### the transition function (`none` = the event is not enabled) -/

def step (s : State) : Ev → Option State
  | .spawn t k clone undo =>
    if s.tasks t = none ∧ s.outcome t = none ∧ ((clone = true ∧ s.readers ≠ []) ∨ (clone = false ∧ s.writer = none)) then
      let comp := regOpt s.comp undo k
      some { s with comp, readers := t :: s.readers,
                    tasks := upd s.tasks t (some { frames := [{ key := k, undo, lock := false, bp := false }], pc := .start,
                                                   batch := none, rd := true, wr := false, detached := false }) }
    else none
  | .call t c =>
    match s.tasks t with
    | some T =>
      (match T.frames with
       | top :: _ =>
         if T.pc = .locked ∧ top.lock = true then
           (match s.comp top.key with
            | some e =>
              some { s with comp := upd s.comp top.key (some { e with regs := (c, true) :: e.regs }),
                            tasks := upd s.tasks t (some { T with frames := { key := c, undo := some top.key, lock := false, bp := false } :: T.frames, pc := .start }) }
            | none => none)
         else none
       | [] => none)
    | none => none
  | .hit t =>
    match s.tasks t with
    | some T =>
      (match T.frames with
       | top :: rest =>
         if T.pc = .start ∧ top.lock = false ∧ top.bp = false then
           let comp := defuseOpt s.comp top.undo top.key
           (match rest with
            | [] => some (endTask { s with comp } t T .returned)
            | _ :: _ => some { s with comp, tasks := upd s.tasks t (some { T with frames := rest, pc := .locked }) })
         else none
       | [] => none)
    | none => none
  | .waitC t =>
    match s.tasks t with
    | some T =>
      (match T.frames with
       | top :: _ => if T.pc = .start ∧ (s.comp top.key).isSome then some (setTask s t { T with pc := .waitC }) else none
       | [] => none)
    | none => none
  | .waitB t =>
    match s.tasks t with
    | some T =>
      (match T.frames with
       | top :: _ => if T.pc = .start ∧ (s.bpl top.key).isSome then some (setTask s t { T with pc := .waitB }) else none
       | [] => none)
    | none => none
  | .wake t =>
    match s.tasks t with
    | some T =>
      (match T.frames with
       | top :: _ =>
         if (T.pc = .waitC ∧ s.comp top.key = none) ∨ (T.pc = .waitB ∧ s.bpl top.key = none)
         then some (setTask s t { T with pc := .start }) else none
       | [] => none)
    | none => none
  | .lock t =>
    match s.tasks t with
    | some T =>
      (match T.frames with
       | top :: rest =>
         if T.pc = .start ∧ top.lock = false ∧ top.bp = false ∧ s.comp top.key = none then
           some { s with comp := upd s.comp top.key (some { owner := t, regs := [] }),
                         tasks := upd s.tasks t (some { T with frames := { top with lock := true } :: rest, pc := .locked }) }
         else none
       | [] => none)
    | none => none
  | .gEnter t =>
    match s.tasks t with
    | some T =>
      if T.pc = .locked then some (setTask s t { T with pc := .g0 })
      else if T.pc = .bpUp then some (setTask s t { T with pc := if T.batch.isSome then .g1 else .g0 })
      else none
    | none => none
  | .batchNew t =>
    match s.tasks t with
    | some T =>
      if T.pc = .g0 ∧ T.batch = none then
        some { setTask s t { T with pc := .g1, batch := some s.nextBid } with bst := upd s.bst s.nextBid .active, nextBid := s.nextBid + 1 }
      else none
    | none => none
  | .write t =>
    match s.tasks t with
    | some T =>
      (match T.frames with
       | top :: _ => if T.pc = .g1 then some { s with partialW := upd s.partialW top.key (s.partialW top.key + 1) } else none
       | [] => none)
    | none => none
  | .submit t =>
    match s.tasks t with
    | some T =>
      (match T.frames, T.batch with
       | top :: _, some b =>
         if T.pc = .g1 then
           some { setTask s t { T with pc := .g2, batch := none } with
                    bst := upd s.bst b .submitted, partialW := upd s.partialW top.key 0,
                    version := upd s.version top.key (s.version top.key + 1) }
         else none
       | _, _ => none)
    | none => none
  | .finish t =>
    match s.tasks t with
    | some T =>
      (match T.frames with
       | top :: rest =>
         if T.pc = .g2 then
           let comp := if top.lock then upd s.comp top.key none else s.comp
           let bpl := if top.bp then upd s.bpl top.key none else s.bpl
           let T' := { T with frames := { top with lock := false, bp := false } :: rest, pc := .start }
           if T.detached then some (endTask { s with comp, bpl } t T' .cancelled)
           else some { s with comp, bpl, tasks := upd s.tasks t (some T') }
         else none
       | [] => none)
    | none => none
  | .panic t =>
    match s.tasks t with
    | some T => if T.pc = .locked then some (setTask s t { T with pc := .caught }) else none
    | none => none
  | .resume t =>
    match s.tasks t with
    | some T =>
      (match T.frames with
       | top :: rest =>
         if T.pc = .caught then
           let r := dropFrame top s.comp s.bpl
           (match rest with
            | [] => some (endTask { s with comp := r.1, bpl := r.2 } t T .panicked)
            | _ :: _ => some { s with comp := r.1, bpl := r.2, tasks := upd s.tasks t (some { T with frames := rest, pc := .caught }) })
         else none
       | [] => none)
    | none => none
  | .bpLock t =>
    match s.tasks t with
    | some T =>
      (match T.frames with
       | top :: rest =>
         if T.pc = .start ∧ top.lock = false ∧ top.bp = false ∧ s.bpl top.key = none then
           some { s with bpl := upd s.bpl top.key (some t),
                         tasks := upd s.tasks t (some { T with frames := { top with bp := true } :: rest, pc := .bpRun }) }
         else none
       | [] => none)
    | none => none
  | .bpUp t =>
    match s.tasks t with
    | some T =>
      if T.pc = .bpRun ∧ T.batch = none then
        if s.cfg.f11 then some (setTask s t { T with pc := .bpUp })
        else some { setTask s t { T with pc := .bpUp, batch := some s.nextBid } with bst := upd s.bst s.nextBid .active, nextBid := s.nextBid + 1 }
      else none
    | none => none
  | .cancel t =>
    match s.tasks t with
    | some T => if T.detached = false then some (cancelTask s t T) else none
    | none => none
  | .sStart t =>
    if s.tasks t = none ∧ s.outcome t = none then
      some (setTask s t { frames := [], pc := .sInit, batch := none, rd := false, wr := false, detached := false })
    else none
  | .sBump t =>
    match s.tasks t with
    | some T =>
      if (T.pc = .sInit ∧ s.cfg.f12 = false) ∨ T.pc = .sG0 then
        some { setTask s t { T with pc := if T.pc = .sInit then .sBumped else .sOpen, batch := some s.nextBid } with
                 bst := upd s.bst s.nextBid .active, nextBid := s.nextBid + 1, epoch := s.epoch + 1 }
      else none
    | none => none
  | .sAcquire t =>
    match s.tasks t with
    | some T =>
      if s.readers = [] ∧ s.writer = none ∧ ((T.pc = .sInit ∧ s.cfg.f12 = true) ∨ T.pc = .sBumped) then
        some { setTask s t { T with pc := if T.pc = .sInit then .sG0 else .sOpen, wr := true } with writer := some t }
      else none
    | none => none
  | .sWrite t k =>
    match s.tasks t with
    | some T => if T.pc = .sOpen ∧ T.detached = false then some { s with version := upd s.version k (s.version k + 1) } else none
    | none => none
  | .sCommit t =>
    match s.tasks t with
    | some T => if T.pc = .sOpen then some (setTask s t { T with pc := .sG1 }) else none
    | none => none
  | .sFinish t =>
    match s.tasks t with
    | some T =>
      (match T.batch with
       | some b => if T.pc = .sG1 then some (endTask { s with bst := upd s.bst b .submitted } t { T with batch := none } .returned) else none
       | none => none)
    | none => none

def run (s : State) : List Ev → Option State
  | [] => some s
  | e :: es => match step s e with
    | some s' => run s' es
    | none => none

inductive Reachable (cfg : Cfg) : State → Prop
  | init : Reachable cfg (init cfg)
  | step {s s'} (e : Ev) : Reachable cfg s → step s e = some s' → Reachable cfg s'

end QbiceVerif.CancelLts
