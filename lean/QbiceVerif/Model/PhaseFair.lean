import QbiceVerif.Model.PhaseLts

/-!
# The phase lock as a FAIR QUEUE (C04, progress of a waiting writer)

A refinement of the lock component of `Model/PhaseLts`: the same `Lock` record and the same operations
(`Lock.enqueue`, `Lock.grantable true`, `Lock.grant`: tokio's `RwLock` as documented — a FIFO,
write-preferring queue: a reader that requests while a writer is queued waits behind it, grants are made in
queue order, consecutive readers at the head are granted one after the other with nothing in between), with the
tasks abstracted to what matters for progress: a task is a sequence of acquisitions, each with a mode
(`true` = exclusive = `input_session()`, `false` = shared = `tracked()`) and a finite number of steps it
performs while it holds the lock (queries / `set_input`s and the commit steps).

`join` is the toggle of the seeded change `C04-readers-join-hold-starve-writer`: a shared request made while a
shared hold is alive JOINS that hold (`Weak::upgrade` of the running phase's read guard) instead of going through
the queue.  `join = false` is the code as it is.

Imports nothing outside core.
-/

namespace QbiceVerif.PhaseFair

open QbiceVerif.Phase (Lock Tid)

/-- one acquisition: mode (`true` = exclusive) and the number of steps performed while holding -/
abbrev Acq := Bool × Nat

inductive Pc where
  | idle
  /-- requested (queued), not yet granted -/
  | waiting (excl : Bool) (work : Nat)
  /-- holds the lock, `work` steps left before the release -/
  | holding (excl : Bool) (work : Nat)
  deriving DecidableEq, Repr, Inhabited

structure Task where
  pc : Pc
  script : List Acq
  deriving DecidableEq, Repr, Inhabited

/-- task `t` is `tasks[t]` -/
structure State where
  lock : Lock
  tasks : List Task

inductive Ev where
  /-- `phase:r:req` / `phase:w:req` taking effect: the task enqueues (or, with `join`, joins the live hold) -/
  | req (t : Tid)
  /-- the lock hands the head of the queue its permits -/
  | grant (t : Tid)
  /-- one step under the lock -/
  | work (t : Tid)
  /-- the guard is dropped -/
  | rel (t : Tid)
  deriving DecidableEq, Repr, Inhabited

def step (join : Bool) (s : State) : Ev → Option State
  | .req t =>
    match s.tasks[t]? with
    | some ⟨.idle, (x, k) :: rest⟩ =>
      -- a task has at most one outstanding request
      if s.lock.want t = none then
        if join && !x && !s.lock.readers.isEmpty then
          some ⟨{ s.lock with readers := t :: s.lock.readers }, s.tasks.set t ⟨.holding false k, rest⟩⟩
        else
          some ⟨s.lock.enqueue t x, s.tasks.set t ⟨.waiting x k, rest⟩⟩
      else none
    | _ => none
  | .grant t =>
    match s.tasks[t]? with
    | some ⟨.waiting x k, sc⟩ =>
      if s.lock.grantable true t then some ⟨s.lock.grant t, s.tasks.set t ⟨.holding x k, sc⟩⟩ else none
    | _ => none
  | .work t =>
    match s.tasks[t]? with
    | some ⟨.holding x (k + 1), sc⟩ => some ⟨s.lock, s.tasks.set t ⟨.holding x k, sc⟩⟩
    | _ => none
  | .rel t =>
    match s.tasks[t]? with
    | some ⟨.holding x 0, sc⟩ =>
      some ⟨if x then { s.lock with writer := none } else { s.lock with readers := s.lock.readers.erase t },
            s.tasks.set t ⟨.idle, sc⟩⟩
    | _ => none

def init (scripts : List (List Acq)) : State := ⟨⟨[], none, []⟩, scripts.map (fun sc => ⟨.idle, sc⟩)⟩

def run (join : Bool) : State → List Ev → Option State
  | s, [] => some s
  | s, e :: es => match step join s e with
    | none => none
    | some s' => run join s' es

/-- the requests queued in front of `w` -/
def ahead (q : List (Tid × Bool)) (w : Tid) : List (Tid × Bool) := q.takeWhile (fun p => p.1 != w)

/-- a task with something left in its script may issue one more request -/
def more (sc : List Acq) : Nat := if sc.isEmpty then 0 else 1

/-- steps a task that is not queued can still take without a new grant -/
def freeCost (x : Task) : Nat :=
  match x.pc with
  | .idle => more x.script
  | .waiting _ _ => 0
  | .holding _ k => k + 1 + more x.script

/-- steps a queued task takes once granted: grant, its work, release, one more request -/
def queuedCost (ts : List Task) (t : Tid) : Nat :=
  match ts[t]? with
  | some ⟨.waiting _ k, sc⟩ => k + 2 + more sc
  | _ => 0

/-- The explicit bound on the wait of writer `w`: the work of the holders and of the requests queued in FRONT
of `w` (plus one re-request each), and one request of every other task.  Scripts of tasks behind `w` do not
occur in it beyond "non-empty". -/
def waitBound (s : State) (w : Tid) : Nat :=
  ((ahead s.lock.queue w).map (fun p => queuedCost s.tasks p.1)).sum + (s.tasks.map freeCost).sum

end QbiceVerif.PhaseFair
