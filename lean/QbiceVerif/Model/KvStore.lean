/-
Model of the `KvDatabase` / `WriteBatch` / `SerializationBuffer` API of the two backends over an
abstract store: per column family (keyspace) a finite map from byte strings to byte strings,
iterated in bytewise order, with atomic batches.  What the real stores do below that interface
(LSM trees, bloom filters, journal) is not modelled; it is exercised by the correspondence run on
the real RocksDB and Fjall.

State:
  disk     column family name ↦ content                (survives `reopen`)
  cache    (stable type id, column kind) ↦ family name (`column_families` / `keyspaces`; per session;
                                                         keyed by id AND kind, as in the code since
                                                         the repair of F19; `cacheByKind := false`
                                                         is the historical cache keyed by the id alone)
  batches  handle ↦ raw operations in program order    (`RocksDBWriteBatch` / `FjallWriteBatch`)
  sbufs    handle ↦ buffered operations                (`…SerializationBuffer`)
-/
import QbiceVerif.Model.KvKey

namespace QbiceVerif.Kv

/-! ### association lists (no duplicate keys by construction of `aset`) -/

def aget {α β} [BEq α] (l : List (α × β)) (a : α) : Option β :=
  match l with
  | [] => none
  | (k, v) :: rest => if k == a then some v else aget rest a

def adel {α β} [BEq α] (l : List (α × β)) (a : α) : List (α × β) :=
  l.filter (fun e => !(e.1 == a))

def aset {α β} [BEq α] (l : List (α × β)) (a : α) (b : β) : List (α × β) :=
  (a, b) :: adel l a

abbrev Col := List (Bytes × Bytes)
abbrev Disk := List (String × Col)

def Disk.col (d : Disk) (n : String) : Col := (aget d n).getD []

/-- What differs between the two backends at this level. -/
structure Backend where
  /-- "cf_" / "ks_" -/
  namePrefix : String
  /-- Fjall pads an empty wide-column key encoding -/
  padKey : Bool
  /-- Fjall: `Item::new` asserts `!key.is_empty()` and `key.len() <= u16::MAX` -/
  maxKey : Option Nat
  /-- RocksDB: seek to the prefix with `prefix_upper_bound` as exclusive upper bound;
      Fjall: the store's own prefix iterator -/
  boundScan : Bool
  /-- Fjall resolves the keyspace when the operation enters the serialization buffer,
      RocksDB when the buffer is consumed -/
  sbufEarly : Bool
  /-- the per-session cache of column families / keyspaces is keyed by (stable type id, column kind).
  `false` = the code before the repair of finding F19: keyed by the stable type id ALONE, so a type
  id used with both kinds got the family of whichever kind touched it first in the session. -/
  cacheByKind : Bool := true

def rocks : Backend := ⟨"cf_", false, none, true, false, true⟩
def fjall : Backend := ⟨"ks_", true, some 65535, false, true, true⟩

/-- the backends as they were before the repair of F19 (historical; only used by witnesses) -/
def rocksF19 : Backend := { rocks with cacheByKind := false }
def fjallF19 : Backend := { fjall with cacheByKind := false }

/-- A raw operation inside a store write batch; `val = none` is a delete. -/
structure WOp where
  cf : String
  key : Bytes
  val : Option Bytes
  deriving Repr, DecidableEq

/-- A buffered operation of a serialization buffer. -/
structure SOp where
  id : Nat
  kind : Kind
  cf : Option String
  key : Bytes
  val : Option Bytes
  deriving Repr, DecidableEq

structure Db where
  disk : Disk := []
  cache : List ((Nat × Kind) × String) := []
  batches : List (Nat × List WOp) := []
  sbufs : List (Nat × List SOp) := []
  /-- Fjall: the visible sequence number of this session is > 0: a keyspace has been created or a
  non-empty batch committed since the database was opened, or recovery found committed items.
  Only observable through over-long keys. -/
  seqPos : Bool := false
  /-- a non-empty batch has ever been committed (its items are recovered on reopen) -/
  everCommitted : Bool := false

/-- Outcome of a write-side call. -/
inductive Res where
  | ok
  /-- the backend panics (Fjall key-size assertion) -/
  | panic
  /-- the handle does not exist (driver error, not an API outcome) -/
  | badHandle
  deriving DecidableEq, Repr

/-- the key under which the family of (type id, kind) is cached: the pair; historically the kind was
not part of it (modelled by collapsing it) -/
def cacheKey (be : Backend) (id : Nat) (kind : Kind) : Nat × Kind :=
  (id, if be.cacheByKind then kind else .wide)

/-- `get_or_create_cf_from_cf_identifier` / `get_or_create_keyspace`: the cache is consulted by
(type id, kind); on a miss the name is derived from id and kind, the family created if absent. -/
def resolve (be : Backend) (db : Db) (id : Nat) (kind : Kind) : String × Db :=
  match aget db.cache (cacheKey be id kind) with
  | some n => (n, db)
  | none =>
    let n := cfName be.namePrefix kind id
    (n, { db with
            cache := aset db.cache (cacheKey be id kind) n
            disk := if (aget db.disk n).isSome then db.disk else db.disk ++ [(n, [])]
            seqPos := db.seqPos || !(aget db.disk n).isSome })

def badKey (be : Backend) (key : Bytes) : Bool :=
  match be.maxKey with
  | some m => key.isEmpty || decide (key.length > m)
  | none => false

/-- Fjall read path: `InternalKey::new` asserts `key.len() <= u16::MAX` (memtable lookups once the
sequence number is positive, and the bounds of every prefix range). -/
def keyOver (be : Backend) (key : Bytes) : Bool :=
  match be.maxKey with
  | some m => decide (key.length > m)
  | none => false

def batchNew (db : Db) (h : Nat) : Db := { db with batches := aset db.batches h [] }

def sbufNew (db : Db) (s : Nat) : Db := { db with sbufs := aset db.sbufs s [] }

/-- `WriteBatch::{put,delete,insert_member,delete_member}`: resolve the family, build the key
(done by the caller of this function: `wideKey` / `setKey`), append to the store batch. -/
def batchWrite (be : Backend) (db : Db) (h id : Nat) (kind : Kind) (key : Bytes)
    (val : Option Bytes) : Res × Db :=
  match aget db.batches h with
  | none => (.badHandle, db)
  | some ops =>
    let r := resolve be db id kind
    if badKey be key then (.panic, r.2)
    else (.ok, { r.2 with batches := aset r.2.batches h (ops ++ [⟨r.1, key, val⟩]) })

/-- `SerializationBuffer::{put,…}`. -/
def sbufWrite (be : Backend) (db : Db) (s id : Nat) (kind : Kind) (key : Bytes)
    (val : Option Bytes) : Res × Db :=
  match aget db.sbufs s with
  | none => (.badHandle, db)
  | some ops =>
    if be.sbufEarly then
      let r := resolve be db id kind
      (.ok, { r.2 with sbufs := aset r.2.sbufs s (ops ++ [⟨id, kind, some r.1, key, val⟩]) })
    else
      (.ok, { db with sbufs := aset db.sbufs s (ops ++ [⟨id, kind, none, key, val⟩]) })


/-- The column family of a buffered operation: already resolved (Fjall) or resolved now (RocksDB). -/
def sopResolve (be : Backend) (db : Db) (op : SOp) : String × Db :=
  match op.cf with
  | some n => (n, db)
  | none => resolve be db op.id op.kind

/-- The loop of `consume_serialization_buffer`: operations enter the batch in order; a Fjall key
assertion panics in the middle and leaves the earlier operations in the batch. -/
def consumeLoop (be : Backend) (h : Nat) : List SOp → Db → Res × Db
  | [], db => (.ok, db)
  | op :: rest, db =>
    let r := sopResolve be db op
    if badKey be op.key then (.panic, r.2)
    else
      match aget r.2.batches h with
      | none => (.badHandle, r.2)
      | some ops =>
        consumeLoop be h rest
          { r.2 with batches := aset r.2.batches h (ops ++ [⟨r.1, op.key, op.val⟩]) }

def consume (be : Backend) (db : Db) (h s : Nat) : Res × Db :=
  match aget db.batches h, aget db.sbufs s with
  | some _, some sops => consumeLoop be h sops { db with sbufs := adel db.sbufs s }
  | _, _ => (.badHandle, db)

/-- One raw operation applied to the store. -/
def applyOp (d : Disk) (op : WOp) : Disk :=
  let c := d.col op.cf
  aset d op.cf (match op.val with
    | some v => aset c op.key v
    | none => adel c op.key)

/-- `WriteBatch::commit`: ONE store write applying all operations in order. -/
def commit (db : Db) (h : Nat) : Res × Db :=
  match aget db.batches h with
  | none => (.badHandle, db)
  | some ops =>
    (.ok, { db with disk := ops.foldl applyOp db.disk, batches := adel db.batches h,
                    seqPos := db.seqPos || !ops.isEmpty,
                    everCommitted := db.everCommitted || !ops.isEmpty })

/-- dropping a batch without committing it -/
def dropBatch (db : Db) (h : Nat) : Res × Db :=
  match aget db.batches h with
  | none => (.badHandle, db)
  | some _ => (.ok, { db with batches := adel db.batches h })

/-- close and open again: only the store content survives. -/
def reopen (db : Db) : Db :=
  { disk := db.disk, seqPos := db.everCommitted, everCommitted := db.everCommitted }

/-- `get_wide_column` (value bytes; decoding them is the codec's business).
Outer `none` = the call panics: Fjall reads through `Database::snapshot()`; for a composite key longer
than 65535 bytes `Memtable::get` answers `None` straight away when the snapshot's sequence number is
0 (nothing has ever been committed) and otherwise trips `InternalKey::new`'s length assertion. -/
def get (be : Backend) (db : Db) (id : Nat) (pl : Placement) (encD encK : Bytes) :
    Option (Option Bytes) × Db :=
  let r := resolve be db id .wide
  let key := wideKey be.padKey pl encD encK
  if keyOver be key then (if r.2.seqPos then none else some none, r.2)
  else (some (aget (r.2.disk.col r.1) key), r.2)

def insertKey (k : Bytes) : List Bytes → List Bytes
  | [] => [k]
  | x :: xs => if ltB x k then x :: insertKey k xs else k :: x :: xs

/-- bytewise ascending order (the iteration order of both stores) -/
def sortKeys : List Bytes → List Bytes
  | [] => []
  | k :: ks => insertKey k (sortKeys ks)

/-- keys visited by the scan iterator -/
def scanKeys (be : Backend) (c : Col) (p : Bytes) : List Bytes :=
  let hits :=
    if be.boundScan then
      let ub := prefixUpperBound p
      c.filter (fun e => leB p e.1 && ltB e.1 ub)
    else
      c.filter (fun e => p.isPrefixOf e.1)
  sortKeys (hits.map (·.1))

/-- `scan_members`, fully drained: element bytes of every visited key in iteration order
(inner `none` = `next()` panics on that key; outer `none` = the store panics on the prefix: Fjall,
prefix longer than 65535 bytes). -/
def scan (be : Backend) (db : Db) (id : Nat) (encK : Bytes) : Option (List (Option Bytes)) × Db :=
  let r := resolve be db id .set
  let p := setPrefix encK
  if keyOver be p then (none, r.2)
  else (some ((scanKeys be (r.2.disk.col r.1) p).map splitMember), r.2)

end QbiceVerif.Kv
