/-
Model of the postcard-style codec of `/repo/crates/serialize` (property C12).

What is modelled, function by function (the code *as it is*):

* `postcard.rs  encode_varint_u{16,32,64,128}`   → `encVarint`  (the `while value >= 0x80` loop; the four
                                                    copies differ only in the integer type)
* `postcard.rs  read_varint_u{16,32,64,128}`     → `decVarint w` (loop: read a byte — eof first —, then the
                                                    `shift >= w` check, then `result |= (byte&0x7f) << shift`
                                                    with the bits shifted out of the `w`-bit register lost,
                                                    then the continuation-bit test, then `shift += 7`)
* `zigzag_encode_i*` / `zigzag_decode_i*`         → `zigzagEncBits` / `zigzagDecBits` (the two's-complement bit
                                                    trick, literally) = `zigzagEnc` / `zigzagDec` (arithmetic
                                                    on `Int`, used by `encode`/`decode`; equality proved for
                                                    every width in `Lemmas/CodecVarint`)
* `emit_u8/i8/bool`, `read_u8/i8/bool`            → one raw byte; `read_bool` is `byte != 0`
* `emit_usize/isize`                              → as `u64`/`i64` (64-bit platform; `try_from` cannot fail)
* `emit_char`/`read_char`                         → `u32` varint + `char::from_u32` range check
* `emit_f32/f64`, `read_f32/f64`                  → 4/8 raw little-endian bytes of the bit pattern
* `emit_str`/`read_str`                           → `usize` length, raw bytes, `String::from_utf8` check
* `impl Encode/Decode for …` in `encode.rs`/`decode.rs` and the derive macros → `encode` / `decode` over the
  type universe `Ty`:
    Box/Rc/Arc/Cow/Cell/RefCell/Wrapping/Reverse/atomics/&T  are transparent (same `Ty` as the inner type)
    Option/Result (bool tag), Bound (u8 tag 0/1/2, other tags invalid), derived enums (`usize` variant
    index, out of range invalid), Vec/VecDeque/LinkedList/slices/SmallVec/sets/maps (`usize` length then
    the items in iteration order; a map is a sequence of pairs), arrays (no length), tuples / derived
    structs / ranges (fields in order), `#[serialize(skip)]` fields (`Ty.skip d`: nothing written, the
    declared default `d` produced), NonZero* (inner value, zero invalid), Duration (`u64` secs, `u32`
    nanos, `Duration::new` carries nanos ≥ 10⁹ into the seconds and panics on overflow), PhantomData /
    RangeFull / `()` (`unit`), BitVec (feature `bitvec`, see below).
* BitVec: `encode` writes the length and then the storage words through their own `Encode` (varints for
  16/32/64-bit/usize words).  `decode true` is the decoder as it is (since /repo commit e089897, which fixed
  finding F7): it reads `⌈len/bits⌉` words through their own `Decode`, `try_from_vec`, `truncate`.
  `decode false` is the decoder *before* that commit, kept as a historical witness: it read `⌈len/8⌉` raw
  bytes and `Write`-d them into a fresh vector (`bitvec::field::io`: every byte is `store_be`d into the next
  8 bits, i.e. little-endian word assembly for `Lsb0`, big-endian for `Msb0`), then truncated.
* `storage/src/intern.rs  impl Encode/Decode for Interned<T>`, `WiredInterned` → `encodeItems` /
  `decodeItems` over a stream of plain values and handles (section `Interned` below).

Errors are explicit: `eof` (`UnexpectedEof`), `invalid` (`InvalidData`), `panic`.
Not modelled: `io::Write` failures, allocation failure of `Vec::with_capacity(len)` for absurd lengths,
non-UTF-8 paths (encode refuses), 32-bit platforms.

Imports nothing outside core.
-/

namespace QbiceVerif.Codec

abbrev Bytes := List UInt8

inductive Err
  | eof | invalid | panic
  deriving DecidableEq, Repr

/-- Result of a decoder: the value and the unread rest of the input. -/
notation "R[" α "]" => Except Err (α × Bytes)

/-- Integer widths of the code (`usize`/`isize` travel as 64 bits). -/
inductive IntW
  | w8 | w16 | w32 | w64 | w128 | wsize
  deriving DecidableEq, Repr

def IntW.bits : IntW → Nat
  | .w8 => 8 | .w16 => 16 | .w32 => 32 | .w64 => 64 | .w128 => 128 | .wsize => 64

mutual
  inductive Val
    | nat (n : Nat)            -- unsigned integers, char code, float bit pattern
    | int (i : Int)            -- signed integers
    | bool (b : Bool)
    | unit
    | bytes (bs : List UInt8)  -- String contents (UTF-8)
    | tagged (tag : Nat) (payload : Val)
        -- Option: None = tagged 0 unit, Some v = tagged 1 v;  Result: Err e = tagged 0 e, Ok v = tagged 1 v
        -- Bound: Unbounded = tagged 0 unit, Included v = tagged 1 v, Excluded v = tagged 2 v
        -- derived enum: variant i with payload tuple p = tagged i p
    | list (vs : ValList)      -- sequences, arrays, tuples, structs
    | bits (len : Nat) (words : List Nat)  -- BitVec: bit length and raw storage words (dead bits included)
  inductive ValList
    | nil
    | cons (v : Val) (vs : ValList)
end

mutual
  inductive Ty
    | uint (w : IntW) | sint (w : IntW)
    | nzu (w : IntW) | nzs (w : IntW)
    | bool | char | f32 | f64 | unit | str
    | option (t : Ty) | result (t e : Ty)
    | seq (t : Ty) | array (n : Nat) (t : Ty)
    | tuple (ts : TyList)
    | enum (variants : TyList)      -- payload of variant i is the i-th entry (a `tuple` of its fields)
    | bound (t : Ty)
    | duration
    | skip (dflt : Val)             -- a `#[serialize(skip)]` field with declared default `dflt`
    | bitvec (w : IntW) (msb : Bool)
  inductive TyList
    | nil
    | cons (t : Ty) (ts : TyList)
end

deriving instance DecidableEq for Val, ValList
deriving instance DecidableEq for Ty, TyList

def ValList.length : ValList → Nat
  | .nil => 0
  | .cons _ vs => vs.length + 1

def ValList.toList : ValList → List Val
  | .nil => []
  | .cons v vs => v :: vs.toList

def ValList.ofList : List Val → ValList
  | [] => .nil
  | v :: vs => .cons v (ValList.ofList vs)

def TyList.length : TyList → Nat
  | .nil => 0
  | .cons _ ts => ts.length + 1

def TyList.get? : TyList → Nat → Option Ty
  | .nil, _ => none
  | .cons t _, 0 => some t
  | .cons _ ts, i + 1 => ts.get? i

def TyList.ofList : List Ty → TyList
  | [] => .nil
  | t :: ts => .cons t (TyList.ofList ts)

/-! ## Primitive writers (`PostcardEncoder`) -/

/-- `encode_varint_u*`: `while value >= 0x80 { buf[i] = (value as u8) | 0x80; value >>= 7; i += 1 }
    buf[i] = value as u8`.  `fuel` only makes the recursion structural; `encVarint` starts it with
    `fuel = n`, which the loop never exhausts (`encVarint_eq` in `Lemmas/CodecVarint`). -/
def encVarintLoop : Nat → Nat → Bytes
  | 0, n => [UInt8.ofNat n]
  | fuel + 1, n =>
    if n < 128 then [UInt8.ofNat n]
    else UInt8.ofNat (n % 128 + 128) :: encVarintLoop fuel (n / 128)

def encVarint (n : Nat) : Bytes := encVarintLoop n n

/-- `to_le_bytes` of a `k`-byte quantity. -/
def leBytes : Nat → Nat → Bytes
  | 0, _ => []
  | k + 1, n => UInt8.ofNat (n % 256) :: leBytes k (n / 256)

/-- `zigzag_encode_i*`: `((v << 1) ^ (v >> (bits-1))) as u*`. -/
def zigzagEnc (i : Int) : Nat :=
  if 0 ≤ i then (2 * i).toNat else (-2 * i - 1).toNat

/-- `zigzag_decode_i*`: `((v >> 1) as i*) ^ (-((v & 1) as i*))`. -/
def zigzagDec (n : Nat) : Int :=
  if n % 2 = 0 then ((n / 2 : Nat) : Int) else -((n / 2 : Nat) : Int) - 1

/-- `zigzag_encode_i*` literally, on a `w`-bit register: `((value << 1) ^ (value >> (BITS-1))) as u*`
    (`>>` on a signed integer is the arithmetic shift).  `Lemmas/CodecVarint.zigzagEncBits_toNat` shows it
    is `zigzagEnc` for every width. -/
def zigzagEncBits (w : Nat) (x : BitVec w) : BitVec w := (x <<< 1) ^^^ (x.sshiftRight (w - 1))

/-- `zigzag_decode_i*` literally: `((value >> 1) as i*) ^ (-((value & 1) as i*))`. -/
def zigzagDecBits (w : Nat) (u : BitVec w) : BitVec w := (u >>> 1) ^^^ (-(u &&& 1#w))

/-- `emit_u8` is a raw byte, every wider unsigned integer a varint. -/
def encUInt (w : IntW) (n : Nat) : Bytes :=
  match w with
  | .w8 => [UInt8.ofNat n]
  | _ => encVarint n

/-- `emit_i8` is the raw byte `v as u8`, every wider signed integer zigzag + varint. -/
def encSInt (w : IntW) (i : Int) : Bytes :=
  match w with
  | .w8 => [UInt8.ofNat (i % 256).toNat]
  | _ => encVarint (zigzagEnc i)

/-! ## Primitive readers (`PostcardDecoder`) -/

def readByte : Bytes → R[UInt8]
  | [] => .error .eof
  | b :: bs => .ok (b, bs)

/-- `read_raw_bytes(len)` / `read_exact`. -/
def readRaw (n : Nat) (bs : Bytes) : R[Bytes] :=
  if bs.length < n then .error .eof else .ok (bs.take n, bs.drop n)

/-- `read_varint_u*` for a `w`-bit register. -/
def decVarintLoop (w : Nat) : Nat → Nat → Bytes → R[Nat]
  | _, _, [] => .error .eof
  | shift, result, b :: bs =>
    if shift ≥ w then .error .invalid
    else
      let result := result ||| (((b.toNat &&& 0x7F) <<< shift) % 2 ^ w)
      if b.toNat &&& 0x80 = 0 then .ok (result, bs)
      else decVarintLoop w (shift + 7) result bs

def decVarint (w : Nat) (bs : Bytes) : R[Nat] := decVarintLoop w 0 0 bs

/-- `from_le_bytes`. -/
def fromLE : Bytes → Nat
  | [] => 0
  | b :: bs => b.toNat + 256 * fromLE bs

def decUInt (w : IntW) (bs : Bytes) : R[Nat] :=
  match w with
  | .w8 => do let (b, bs) ← readByte bs; pure (b.toNat, bs)
  | w => decVarint w.bits bs

def decSInt (w : IntW) (bs : Bytes) : R[Int] :=
  match w with
  | .w8 => do
    let (b, bs) ← readByte bs
    pure (if b.toNat < 128 then (b.toNat : Int) else (b.toNat : Int) - 256, bs)
  | w => do let (n, bs) ← decVarint w.bits bs; pure (zigzagDec n, bs)

/-- `char::from_u32(code).is_some()`. -/
def isScalar (n : Nat) : Bool := n < 0xD800 || (0xE000 ≤ n && n < 0x110000)

def isCont (b : UInt8) : Bool := 0x80 ≤ b.toNat && b.toNat ≤ 0xBF

/-- `String::from_utf8(bytes).is_ok()` (Unicode table 3-7, well-formed UTF-8 byte sequences). -/
def validUtf8 : Bytes → Bool
  | [] => true
  | b0 :: rest =>
    let x := b0.toNat
    if x < 0x80 then validUtf8 rest
    else if 0xC2 ≤ x && x ≤ 0xDF then
      match rest with
      | b1 :: r => isCont b1 && validUtf8 r
      | _ => false
    else if 0xE0 ≤ x && x ≤ 0xEF then
      match rest with
      | b1 :: b2 :: r =>
        let y := b1.toNat
        (if x = 0xE0 then 0xA0 ≤ y && y ≤ 0xBF
         else if x = 0xED then 0x80 ≤ y && y ≤ 0x9F
         else 0x80 ≤ y && y ≤ 0xBF) && isCont b2 && validUtf8 r
      | _ => false
    else if 0xF0 ≤ x && x ≤ 0xF4 then
      match rest with
      | b1 :: b2 :: b3 :: r =>
        let y := b1.toNat
        (if x = 0xF0 then 0x90 ≤ y && y ≤ 0xBF
         else if x = 0xF4 then 0x80 ≤ y && y ≤ 0x8F
         else 0x80 ≤ y && y ≤ 0xBF) && isCont b2 && isCont b3 && validUtf8 r
      | _ => false
    else false

def ceilDiv (a b : Nat) : Nat := (a + b - 1) / b

/-! ## BitVec helpers -/

/-- The storage words of a BitVec go through their own `Encode`. -/
def encWords (w : IntW) : List Nat → Bytes
  | [] => []
  | x :: xs => encUInt w x ++ encWords w xs

/-- The decoder as it is (since e089897): `n` storage words through their own `Decode`. -/
def readWords (w : IntW) : Nat → Bytes → R[List Nat]
  | 0, bs => .ok ([], bs)
  | n + 1, bs => do
    let (x, bs) ← decUInt w bs
    let (xs, bs) ← readWords w n bs
    pure (x :: xs, bs)

/-- Big-endian assembly of a chunk of bytes. -/
def fromBE (bs : Bytes) : Nat := fromLE bs.reverse

/-- Historical decoder (before e089897): `BitVec::write` of the raw bytes.  Byte `j` lands in word `j / (bits/8)`;
    `Lsb0` assembles the chunk little-endian, `Msb0` big-endian; missing bytes are the `false`
    bits of `resize`.  `n` is the number of storage words (`⌈len/bits⌉`). -/
def assembleWords (w : IntW) (msb : Bool) : Nat → Bytes → List Nat
  | 0, _ => []
  | n + 1, bs =>
    let k := w.bits / 8
    let chunk := bs.take k
    let chunk := chunk ++ List.replicate (k - chunk.length) 0
    (if msb then fromBE chunk else fromLE chunk) :: assembleWords w msb n (bs.drop k)

/-! ## Well-typed values -/

def uintOk (w : IntW) (n : Nat) : Bool := n < 2 ^ w.bits
def sintOk (w : IntW) (i : Int) : Bool := -(2 ^ (w.bits - 1) : Int) ≤ i && i < (2 ^ (w.bits - 1) : Int)

mutual
  /-- `wt t v`: `v` is a value of the Rust type described by `t`. -/
  def wt (t : Ty) (v : Val) : Bool :=
    match t with
    | .uint w => (match v with | .nat n => uintOk w n | _ => false)
    | .sint w => (match v with | .int i => sintOk w i | _ => false)
    | .nzu w => (match v with | .nat n => uintOk w n && n != 0 | _ => false)
    | .nzs w => (match v with | .int i => sintOk w i && i != 0 | _ => false)
    | .bool => (match v with | .bool _ => true | _ => false)
    | .char => (match v with | .nat n => isScalar n | _ => false)
    | .f32 => (match v with | .nat n => decide (n < 2 ^ 32) | _ => false)
    | .f64 => (match v with | .nat n => decide (n < 2 ^ 64) | _ => false)
    | .unit => (match v with | .unit => true | _ => false)
    | .str => (match v with | .bytes bs => decide (bs.length < 2 ^ 64) && validUtf8 bs | _ => false)
    | .option t => (match v with
        | .tagged 0 .unit => true
        | .tagged 1 p => wt t p
        | _ => false)
    | .result t e => (match v with
        | .tagged 0 p => wt e p
        | .tagged 1 p => wt t p
        | _ => false)
    | .seq t => (match v with | .list vs => decide (vs.length < 2 ^ 64) && wtSeq t vs | _ => false)
    | .array n t => (match v with | .list vs => decide (vs.length = n) && wtSeq t vs | _ => false)
    | .tuple ts => (match v with | .list vs => wtTuple ts vs | _ => false)
    | .enum vts => (match v with
        | .tagged i p => decide (i < 2 ^ 64) && (match vts.get? i with | some t => wt t p | none => false)
        | _ => false)
    | .bound t => (match v with
        | .tagged 0 .unit => true
        | .tagged 1 p => wt t p
        | .tagged 2 p => wt t p
        | _ => false)
    | .duration => (match v with
        | .list (.cons (.nat s) (.cons (.nat n) .nil)) => decide (s < 2 ^ 64) && decide (n < 1000000000)
        | _ => false)
    | .skip _ => true
    | .bitvec w _ => (match v with
        | .bits len words =>
          decide (len < 2 ^ 64) && decide (words.length = ceilDiv len w.bits) && words.all (uintOk w)
        | _ => false)
  def wtSeq (t : Ty) (vs : ValList) : Bool :=
    match vs with
    | .nil => true
    | .cons v vs => wt t v && wtSeq t vs
  def wtTuple (ts : TyList) (vs : ValList) : Bool :=
    match ts, vs with
    | .nil, .nil => true
    | .cons t ts, .cons v vs => wt t v && wtTuple ts vs
    | _, _ => false
end

/-! ## `Encode` -/

mutual
  /-- `impl Encode for …` composed with `PostcardEncoder`.  Only meaningful on well-typed pairs
      (Rust's type checker guarantees them); `[]` elsewhere is not an outcome of the code. -/
  def encode (t : Ty) (v : Val) : Bytes :=
    match t with
    | .uint w => (match v with | .nat n => encUInt w n | _ => [])
    | .sint w => (match v with | .int i => encSInt w i | _ => [])
    | .nzu w => (match v with | .nat n => encUInt w n | _ => [])
    | .nzs w => (match v with | .int i => encSInt w i | _ => [])
    | .bool => (match v with | .bool b => [if b then 1 else 0] | _ => [])
    | .char => (match v with | .nat n => encVarint n | _ => [])
    | .f32 => (match v with | .nat n => leBytes 4 n | _ => [])
    | .f64 => (match v with | .nat n => leBytes 8 n | _ => [])
    | .unit => []
    | .str => (match v with | .bytes bs => encVarint bs.length ++ bs | _ => [])
    | .option t => (match v with
        | .tagged 0 _ => [0]
        | .tagged _ p => 1 :: encode t p
        | _ => [])
    | .result t e => (match v with
        | .tagged 0 p => 0 :: encode e p
        | .tagged _ p => 1 :: encode t p
        | _ => [])
    | .seq t => (match v with | .list vs => encVarint vs.length ++ encodeSeq t vs | _ => [])
    | .array _ t => (match v with | .list vs => encodeSeq t vs | _ => [])
    | .tuple ts => (match v with | .list vs => encodeTuple ts vs | _ => [])
    | .enum vts => (match v with
        | .tagged i p => (match vts.get? i with | some t => encVarint i ++ encode t p | none => [])
        | _ => [])
    | .bound t => (match v with
        | .tagged 0 _ => [0]
        | .tagged 1 p => 1 :: encode t p
        | .tagged _ p => 2 :: encode t p
        | _ => [])
    | .duration => (match v with
        | .list (.cons (.nat s) (.cons (.nat n) .nil)) => encVarint s ++ encVarint n
        | _ => [])
    | .skip _ => []
    | .bitvec w _ => (match v with
        | .bits len words => encVarint len ++ encWords w words
        | _ => [])
  def encodeSeq (t : Ty) (vs : ValList) : Bytes :=
    match vs with
    | .nil => []
    | .cons v vs => encode t v ++ encodeSeq t vs
  def encodeTuple (ts : TyList) (vs : ValList) : Bytes :=
    match ts, vs with
    | .cons t ts, .cons v vs => encode t v ++ encodeTuple ts vs
    | _, _ => []
end

mutual
  /-- What a round trip is allowed to change: a skipped field comes back as its declared default. -/
  def normalize (t : Ty) (v : Val) : Val :=
    match t with
    | .option t => (match v with
        | .tagged 0 p => .tagged 0 p
        | .tagged i p => .tagged i (normalize t p)
        | v => v)
    | .result t e => (match v with
        | .tagged 0 p => .tagged 0 (normalize e p)
        | .tagged i p => .tagged i (normalize t p)
        | v => v)
    | .seq t => (match v with | .list vs => .list (normalizeSeq t vs) | v => v)
    | .array _ t => (match v with | .list vs => .list (normalizeSeq t vs) | v => v)
    | .tuple ts => (match v with | .list vs => .list (normalizeTuple ts vs) | v => v)
    | .enum vts => (match v with
        | .tagged i p => (match vts.get? i with | some t => .tagged i (normalize t p) | none => .tagged i p)
        | v => v)
    | .bound t => (match v with
        | .tagged 0 p => .tagged 0 p
        | .tagged i p => .tagged i (normalize t p)
        | v => v)
    | .skip d => d
    | _ => v
  def normalizeSeq (t : Ty) (vs : ValList) : ValList :=
    match vs with
    | .nil => .nil
    | .cons v vs => .cons (normalize t v) (normalizeSeq t vs)
  def normalizeTuple (ts : TyList) (vs : ValList) : ValList :=
    match ts, vs with
    | .cons t ts, .cons v vs => .cons (normalize t v) (normalizeTuple ts vs)
    | _, vs => vs
end

/-! ## `Decode` -/

/-- `for _ in 0..len { vec.push(T::decode(..)?) }` -/
def decodeMany (f : Bytes → R[Val]) : Nat → Bytes → R[ValList]
  | 0, bs => .ok (.nil, bs)
  | n + 1, bs => do
    let (v, bs) ← f bs
    let (vs, bs) ← decodeMany f n bs
    pure (.cons v vs, bs)

mutual
  /-- `impl Decode for …` composed with `PostcardDecoder`.  `fixF7 = true` is the code as it is;
      `fixF7 = false` the BitVec decoder before /repo commit e089897 (finding F7). -/
  def decode (fixF7 : Bool) : Ty → Bytes → R[Val]
    | .uint w, bs => do let (n, bs) ← decUInt w bs; pure (.nat n, bs)
    | .sint w, bs => do let (i, bs) ← decSInt w bs; pure (.int i, bs)
    | .nzu w, bs => do
      let (n, bs) ← decUInt w bs
      if n = 0 then .error .invalid else pure (.nat n, bs)
    | .nzs w, bs => do
      let (i, bs) ← decSInt w bs
      if i = 0 then .error .invalid else pure (.int i, bs)
    | .bool, bs => do let (b, bs) ← readByte bs; pure (.bool (b != 0), bs)
    | .char, bs => do
      let (n, bs) ← decVarint 32 bs
      if isScalar n then pure (.nat n, bs) else .error .invalid
    | .f32, bs => do let (raw, bs) ← readRaw 4 bs; pure (.nat (fromLE raw), bs)
    | .f64, bs => do let (raw, bs) ← readRaw 8 bs; pure (.nat (fromLE raw), bs)
    | .unit, bs => pure (.unit, bs)
    | .str, bs => do
      let (len, bs) ← decVarint 64 bs
      let (raw, bs) ← readRaw len bs
      if validUtf8 raw then pure (.bytes raw, bs) else .error .invalid
    | .option t, bs => do
      let (b, bs) ← readByte bs
      if b != 0 then do let (p, bs) ← decode fixF7 t bs; pure (.tagged 1 p, bs)
      else pure (.tagged 0 .unit, bs)
    | .result t e, bs => do
      let (b, bs) ← readByte bs
      if b != 0 then do let (p, bs) ← decode fixF7 t bs; pure (.tagged 1 p, bs)
      else do let (p, bs) ← decode fixF7 e bs; pure (.tagged 0 p, bs)
    | .seq t, bs => do
      let (len, bs) ← decVarint 64 bs
      let (vs, bs) ← decodeMany (decode fixF7 t) len bs
      pure (.list vs, bs)
    | .array n t, bs => do
      let (vs, bs) ← decodeMany (decode fixF7 t) n bs
      pure (.list vs, bs)
    | .tuple ts, bs => do let (vs, bs) ← decodeTuple fixF7 ts bs; pure (.list vs, bs)
    | .enum vts, bs => do
      let (i, bs) ← decVarint 64 bs
      let (p, bs) ← decodeVariant fixF7 vts i bs
      pure (.tagged i p, bs)
    | .bound t, bs => do
      let (b, bs) ← readByte bs
      if b = 0 then pure (.tagged 0 .unit, bs)
      else if b = 1 then do let (p, bs) ← decode fixF7 t bs; pure (.tagged 1 p, bs)
      else if b = 2 then do let (p, bs) ← decode fixF7 t bs; pure (.tagged 2 p, bs)
      else .error .invalid
    | .duration, bs => do
      let (s, bs) ← decVarint 64 bs
      let (n, bs) ← decVarint 32 bs
      -- `Duration::new(secs, nanos)`
      if n < 1000000000 then pure (.list (.cons (.nat s) (.cons (.nat n) .nil)), bs)
      else
        let s' := s + n / 1000000000
        if s' < 2 ^ 64 then pure (.list (.cons (.nat s') (.cons (.nat (n % 1000000000)) .nil)), bs)
        else .error .panic
    | .skip d, bs => pure (d, bs)
    | .bitvec w msb, bs => do
      let (len, bs) ← decVarint 64 bs
      if fixF7 then do
        let (ws, bs) ← readWords w (ceilDiv len w.bits) bs
        pure (.bits len ws, bs)
      else do
        let (raw, bs) ← readRaw (ceilDiv len 8) bs
        pure (.bits len (assembleWords w msb (ceilDiv len w.bits) raw), bs)
  def decodeTuple (fixF7 : Bool) : TyList → Bytes → R[ValList]
    | .nil, bs => pure (.nil, bs)
    | .cons t ts, bs => do
      let (v, bs) ← decode fixF7 t bs
      let (vs, bs) ← decodeTuple fixF7 ts bs
      pure (.cons v vs, bs)
  /-- `match variant_idx { 0 => …, 1 => …, _ => Err(InvalidData) }` -/
  def decodeVariant (fixF7 : Bool) : TyList → Nat → Bytes → R[Val]
    | .nil, _, _ => .error .invalid
    | .cons t _, 0, bs => decode fixF7 t bs
    | .cons _ ts, i + 1, bs => decodeVariant fixF7 ts i bs
end

/-- Several top-level `decoder.decode::<T>()` calls on one stream. -/
def decodeAll (fixF7 : Bool) : List Ty → Bytes → R[List Val]
  | [], bs => .ok ([], bs)
  | t :: ts, bs => do
    let (v, bs) ← decode fixF7 t bs
    let (vs, bs) ← decodeAll fixF7 ts bs
    pure (v :: vs, bs)

/-- Several top-level `encoder.encode(&v)` calls on one stream. -/
def encodeAll : List (Ty × Val) → Bytes
  | [] => []
  | (t, v) :: tvs => encode t v ++ encodeAll tvs

mutual
  /-- No BitVec with a store wider than a byte occurs in the type (the pre-e089897 decoder was right there). -/
  def Ty.noWideBitvec : Ty → Bool
    | .option t => t.noWideBitvec
    | .result t e => t.noWideBitvec && e.noWideBitvec
    | .seq t => t.noWideBitvec
    | .array _ t => t.noWideBitvec
    | .tuple ts => ts.noWideBitvec
    | .enum vts => vts.noWideBitvec
    | .bound t => t.noWideBitvec
    | .bitvec w _ => w == .w8
    | _ => true
  def TyList.noWideBitvec : TyList → Bool
    | .nil => true
    | .cons t ts => t.noWideBitvec && ts.noWideBitvec
end

mutual
  /-- No skipped field occurs in the type (then `normalize` is the identity). -/
  def Ty.noSkip : Ty → Bool
    | .option t => t.noSkip
    | .result t e => t.noSkip && e.noSkip
    | .seq t => t.noSkip
    | .array _ t => t.noSkip
    | .tuple ts => ts.noSkip
    | .enum vts => vts.noSkip
    | .bound t => t.noSkip
    | .skip _ => false
    | _ => true
  def TyList.noSkip : TyList → Bool
    | .nil => true
    | .cons t ts => t.noSkip && ts.noSkip
end

/-! ## Interned handles (`storage/src/intern.rs`)

A structure containing handles is flattened to the stream of its parts in encoding order: plain
parts (any `Ty`, including the length prefixes and tags of the containers around the handles) and
handles `Interned<T>` (stable type id `tid`, inner type `t`).  `hash tid v` stands for
`interner.hash_128(value)` and is a parameter. -/

inductive Item
  | plain (t : Ty) (v : Val)
  | handle (tid : Nat) (t : Ty) (v : Val)

inductive ItemTy
  | plain (t : Ty)
  | handle (tid : Nat) (t : Ty)

def Item.ty : Item → ItemTy
  | .plain t _ => .plain t
  | .handle tid t _ => .handle tid t

/-- `Compact128(u64, u64)` derives `Encode`: low then high half, each a `u64` varint. -/
def encHash (h : Nat) : Bytes := encVarint (h % 2 ^ 64) ++ encVarint (h / 2 ^ 64)

def decHash (bs : Bytes) : R[Nat] := do
  let (lo, bs) ← decVarint 64 bs
  let (hi, bs) ← decVarint 64 bs
  pure (lo + 2 ^ 64 * hi, bs)

/-- `impl Encode for Interned<T>`; `seen` is the session's `SeenInterned` set. -/
def encodeItems (hash : Nat → Val → Nat) : List Item → List (Nat × Nat) → Bytes
  | [], _ => []
  | .plain t v :: is, seen => encode t v ++ encodeItems hash is seen
  | .handle tid t v :: is, seen =>
    let h := hash tid v
    if seen.contains (tid, h) then
      1 :: encHash h ++ encodeItems hash is seen
    else
      0 :: encode t v ++ encodeItems hash is ((tid, h) :: seen)

/-- The decoder-side interner: slots `(type id, hash) ↦ value`, the slot index is the identity of
    the shared allocation (`Arc` pointer).  Weak references that died are not modelled: every
    decoded handle is kept alive by the structure being decoded. -/
abbrev Interner := List ((Nat × Nat) × Val)

def Interner.find (I : Interner) (k : Nat × Nat) : Option (Nat × Val) :=
  match I with
  | [] => none
  | (k', v) :: rest => if k' = k then some (rest.length, v) else Interner.find rest k

/-- A decoded part: plain value, or handle = (slot, value of the slot). -/
inductive Decoded
  | plain (v : Val)
  | handle (slot : Nat) (v : Val)

/-- `impl Decode for Interned<T>`: `WiredInterned::Source` → `interner.intern(value)` (an existing
    live entry with the same hash wins), `Reference` → `get_from_hash(..).expect(..)`. -/
def decodeItems (fixF7 : Bool) (hash : Nat → Val → Nat) :
    List ItemTy → Bytes → Interner → Except Err (List Decoded × Bytes × Interner)
  | [], bs, I => .ok ([], bs, I)
  | .plain t :: ts, bs, I => do
    let (v, bs) ← decode fixF7 t bs
    let (ds, bs, I) ← decodeItems fixF7 hash ts bs I
    pure (.plain v :: ds, bs, I)
  | .handle tid t :: ts, bs, I => do
    let (tag, bs) ← readByte bs
    if tag = 0 then do
      let (v, bs) ← decode fixF7 t bs
      let k := (tid, hash tid v)
      match I.find k with
      | some (slot, v') => do
        let (ds, bs, I) ← decodeItems fixF7 hash ts bs I
        pure (.handle slot v' :: ds, bs, I)
      | none => do
        let I' : Interner := (k, v) :: I
        let (ds, bs, I'') ← decodeItems fixF7 hash ts bs I'
        pure (.handle I.length v :: ds, bs, I'')
    else if tag = 1 then do
      let (h, bs) ← decHash bs
      match I.find (tid, h) with
      | some (slot, v') => do
        let (ds, bs, I) ← decodeItems fixF7 hash ts bs I
        pure (.handle slot v' :: ds, bs, I)
      | none => .error .panic
    else .error .invalid

end QbiceVerif.Codec
