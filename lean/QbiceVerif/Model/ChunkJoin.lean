/-!
# `CJ` — joining the chunk tasks of an unordered dependency group

`repair.rs recompute_decision_based_on_forward_edges`, `NodeDependency::Unordered`: the callees of the group are
checked by spawned chunk tasks (`check_callee_chunked`); the parent takes their results from the `JoinSet` IN
COMPLETION ORDER and folds them into `found_recompute`, `cleaned_edges` and `repair_transitive_firewall_callees`.
The last flag decides whether `clean_query` rebuilds the caller's transitive-firewall-callee set from its callees'
sets (a callee reported "same value, but my firewall set changed").

`Model/Engine.lean repairQuery` states the accumulation as the code does (`if rt then needTfc := true`, for single
dependencies and for every member of a group, one after the other).  This file isolates the fold so that the
property the accumulation gives — the result does not depend on the completion order — is a theorem, and the seeded
change C02-unordered-group-tfc-flag-overwritten (`lastWins`: the flag is ASSIGNED per chunk) is refuted by a witness.
-/

namespace QbiceVerif.Lts.CJ

/-- `ChunkedCalleeCheckDecision` -/
inductive Chunk
  | recompute
  | cleaned (repairTfc : Bool) (edges : List Nat)
deriving DecidableEq, Repr

structure Acc where
  recompute : Bool
  repairTfc : Bool
  cleaned : List Nat
deriving DecidableEq, Repr

/-- one iteration of `while let Some(result) = chunk_handles.join_next().await` -/
def joinStep (lastWins : Bool) (a : Acc) : Chunk → Acc
  | .recompute => { a with recompute := true }
  | .cleaned rt es =>
    if a.recompute then a
    else { a with cleaned := a.cleaned ++ es, repairTfc := if lastWins then rt else (a.repairTfc || rt) }

/-- the whole join, results in completion order -/
def join (lastWins : Bool) (a : Acc) (cs : List Chunk) : Acc := cs.foldl (joinStep lastWins) a

def Chunk.wantsTfc : Chunk → Bool
  | .cleaned rt _ => rt
  | .recompute => false

def Chunk.isRecompute : Chunk → Bool
  | .recompute => true
  | _ => false

def insertSorted (x : Nat) : List Nat → List Nat
  | [] => [x]
  | y :: ys => if x < y then x :: y :: ys else if x = y then y :: ys else y :: insertSorted x ys

def unionSorted (a b : List Nat) : List Nat := b.foldl (fun acc x => insertSorted x acc) a

/-- `clean_query`: the caller's new firewall set — rebuilt from the members' current sets if the flag is set,
otherwise the recorded one is kept -/
def newTfc (flag : Bool) (old : List Nat) (memberSets : List (List Nat)) : List Nat :=
  if flag then memberSets.foldl unionSorted [] else old

end QbiceVerif.Lts.CJ
