/-
Model of the byte-level composite key scheme of the two shipped store backends
(`crates/storage/src/kv_database/rocksdb.rs`, `…/fjall.rs`).

Everything here is about *bytes*: the serializer's encoding of a key / discriminant / element is an
input (`encK`, `encD`, `encE : Bytes`); C12 is the property that talks about the codec.

  wideKey      = `encode_wide_column_key`   (discriminant before or after the key; Fjall pads an
                                             empty key encoding with one 0 byte: `encode_value(.., non_empty = true)`)
  setPrefix    = `encode_value_length_prefixed` (8-byte little-endian length, then the key bytes)
  setKey       = `insert_member` / `delete_member` key  (set prefix, then the element bytes; value is empty)
  prefixUpperBound = `Impl::prefix_upper_bound`  (RocksDB only; empty result = the "no upper bound" branch)
  transformKey = `Impl::transform_key`       (RocksDB prefix extractor of key-of-set column families)
  splitMember  = the slicing done by `ScanMembersIterator::next` (`key[0..8]`, `key[8 + length..]`)
  cfName       = `cf_name_from_id` / `keyspace_name_from_id`
-/
namespace QbiceVerif.Kv

abbrev Bytes := List UInt8

/-- `w` little-endian bytes of `n` (`to_le_bytes`). -/
def leBytes : Nat → Nat → Bytes
  | 0, _ => []
  | w + 1, n => UInt8.ofNat (n % 256) :: leBytes w (n / 256)

/-- `(len as u64).to_le_bytes()`. -/
def le64 (n : Nat) : Bytes := leBytes 8 (n % 2 ^ 64)

/-- `u64::from_le_bytes` (on any number of bytes). -/
def fromLe : Bytes → Nat
  | [] => 0
  | b :: bs => b.toNat + 256 * fromLe bs

/-- Fjall `encode_value(key, buffer, non_empty = true)`: an empty encoding becomes the single byte 0. -/
def pad (bs : Bytes) : Bytes := if bs.isEmpty then [0] else bs

/-- `DiscriminantEncoding`. -/
inductive Placement where
  | prefixed
  | suffixed
  deriving DecidableEq, Repr

/-- `encode_wide_column_key`; `padKey = true` is Fjall, `false` is RocksDB. -/
def wideKey (padKey : Bool) (pl : Placement) (encD encK : Bytes) : Bytes :=
  let k := if padKey then pad encK else encK
  match pl with
  | .prefixed => encD ++ k
  | .suffixed => k ++ encD

/-- `encode_value_length_prefixed`. -/
def setPrefix (encK : Bytes) : Bytes := le64 encK.length ++ encK

/-- key written by `insert_member` / `delete_member`. -/
def setKey (encK encE : Bytes) : Bytes := setPrefix encK ++ encE

/-- The loop of `prefix_upper_bound`, on the reversed byte string: the last byte below 0xFF is
incremented and everything after it dropped; all-0xFF (or empty) gives the empty vector. -/
def ubRev : Bytes → Bytes
  | [] => []
  | b :: rest => if b < 0xFF then (b + 1) :: rest else ubRev rest

/-- `Impl::prefix_upper_bound`. -/
def prefixUpperBound (p : Bytes) : Bytes := (ubRev p.reverse).reverse

/-- `Impl::transform_key` (prefix extractor).  (`8 + length` is computed in `Nat`; the `usize`
overflow of the code needs a length field ≥ 2^64 - 8, which no stored key has.) -/
def transformKey (key : Bytes) : Bytes :=
  if key.length < 8 then key
  else
    let len := fromLe (key.take 8)
    if key.length < 8 + len then key else key.take (8 + len)

/-- `ScanMembersIterator::next`: the element bytes of a stored member key; `none` = the slice
indexing panics (key shorter than 8 bytes or shorter than `8 + length`). -/
def splitMember (key : Bytes) : Option Bytes :=
  if key.length < 8 then none
  else
    let len := fromLe (key.take 8)
    if key.length < 8 + len then none else some (key.drop (8 + len))

/-- Strict lexicographic order on byte strings (the bytewise comparator of both stores). -/
def ltB : Bytes → Bytes → Bool
  | _, [] => false
  | [], _ :: _ => true
  | a :: as, b :: bs => a < b || (a == b && ltB as bs)

/-- Non-strict lexicographic order. -/
def leB : Bytes → Bytes → Bool
  | [], _ => true
  | _ :: _, [] => false
  | a :: as, b :: bs => a < b || (a == b && leB as bs)

/-- `true` iff every byte is 0xFF (then `prefix_upper_bound` has no successor to return). -/
def allFF (p : Bytes) : Bool := p.all (· == 0xFF)

/-- Column kinds (`ColumnKind`). -/
inductive Kind where
  | wide
  | set
  deriving DecidableEq, Repr

def hexDigitU (d : Nat) : Char :=
  if d < 10 then Char.ofNat (48 + d) else Char.ofNat (55 + d)

/-- Upper-case hex digits of `n`, most significant first, no leading zeros, `0 ↦ "0"`
(`{:X}`); `fuel` bounds the number of digits. -/
def hexUpperAux : Nat → Nat → List Char → List Char
  | 0, _, acc => acc
  | fuel + 1, n, acc =>
    if n < 16 then hexDigitU n :: acc else hexUpperAux fuel (n / 16) (hexDigitU (n % 16) :: acc)

def hexUpper (n : Nat) : List Char := hexUpperAux (n + 1) n []

def kindStr : Kind → String
  | .wide => "wide_column"
  | .set => "key_of_set"

/-- `format!("cf_{}_{:#X}", kind, id.as_u128())` (`pre = "cf_"`, RocksDB) and
`format!("ks_{}_{:#X}", …)` (`pre = "ks_"`, Fjall). -/
def cfName (pre : String) (kind : Kind) (id : Nat) : String :=
  pre ++ kindStr kind ++ "_0x" ++ String.ofList (hexUpper id)

end QbiceVerif.Kv
