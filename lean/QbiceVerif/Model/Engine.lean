/-
Sequential model of the qbice engine (crates/qbice/src/engine/computation_graph/*), function by
function, as it behaves when one task at a time drives it (current-thread runtime):
`query_for`, `fast_path`, `exit_scc`/`check_cyclic`, `computing_lock_guard`, `repair_query`
(`should_recompute_query`, `check_callee`), `repair_transitive_firewall_callees`, `execute_query`,
`computing_lock_to_computed`/`set_computed`, `clean_query`, `invoke_backward_projections`,
`dirty_propagate_from_batch`, `set_input`/`refresh`/`commit`.

Fingerprints are the values themselves (hash injectivity assumed, C13).  Every `unwrap`/`expect`
of the code is an explicit `Err.panic`; waiting for a lock that the (single) running task itself
holds is `Err.deadlock`; recursion is by fuel (`Err.outOfFuel`).  Imports nothing outside core.
-/
namespace Qbice.Engine

abbrev Key := Nat
abbrev Val := Int

inductive Kind | input | normal | firewall | projection | external
  deriving DecidableEq, Repr, Inhabited

/-- Executors as a free monad over the engine's read API. -/
inductive Prog where
  | ret (v : Val)
  | ask (k : Key) (cont : Val → Prog)
  /-- unordered callee group: all keys are read inside start/end_unordered_callee_group -/
  | askAll (ks : List Key) (cont : List Val → Prog)
  /-- harness-controlled cell (external executors only) -/
  | world (k : Key) (cont : Val → Prog)

structure NodeDef where
  kind : Kind
  dflt : Val            -- `Executor::scc_value()`
  prog : Prog

abbrev Program := List NodeDef   -- key = index

inductive Dep | single (k : Key) | unordered (ks : List Key)
  deriving DecidableEq, Repr

def Dep.keys : Dep → List Key
  | .single k => [k]
  | .unordered ks => ks

/-- `Observation`: seen value fingerprint, seen TFC fingerprint (the set itself, sorted). -/
structure Obs where
  val : Val
  tfc : List Key
  deriving DecidableEq, Repr

structure Node where
  kind : Kind
  lastVerified : Nat
  value : Val
  fwd : List Dep
  obs : List (Key × Obs)
  tfc : List Key                 -- sorted, duplicate-free
  pendingBP : Option Nat
  /-- the last run ended inside an SCC (not stored by the code; used by the candidate repair `f32`) -/
  sccRun : Bool := false
  deriving Repr

/-- `QueryComputing` of a key on the computing table. -/
structure Comp where
  key : Key
  kind : Kind
  callees : List (Key × Option Obs)   -- `callee_queries`
  order : List Dep                     -- `callee_order.order`
  unorderedMode : Bool
  inScc : Bool
  tfc : List Key
  deriving Repr

inductive Caller
  | user
  | query (k : Key) (requireValue : Bool) (pedantic : Bool)
  | bpp                 -- BackwardProjectionPropagation
  | repairFirewall
  deriving DecidableEq, Repr

inductive Err
  | outOfFuel
  | panic (msg : String)
  | deadlock (msg : String)
  | badOp (msg : String)
  deriving Repr, DecidableEq

/-- Behaviour switches.  The DEFAULT value of every switch is what the code does now; the other value
    is what a repaired code would do (known findings) or what the code did before a fix was committed
    (historical switches `f2`, `f16`, `f33`, default `true`). -/
structure Toggles where
  /-- F1: also repair the callee's transitive firewall callees when a non-pedantic *query* caller
      takes the Repair slow path (the code does it for `User`/`RepairFirewall` callers only). -/
  f1 : Bool := false
  /-- F2 (HISTORICAL, fixed in /repo by 531aeb1): a missing observation in `check_callee` means
      "recompute".  `false` = the code before the fix: `unwrap()` panics. -/
  f2 : Bool := true
  /-- F3: runs that ended inside an SCC record no observations. -/
  f3 : Bool := false
  /-- F14: a pending backward projection stays pending until it is performed, whatever the epoch
      (the code only honours a pending flag stamped with the current epoch). -/
  f14 : Bool := true
  /-- F16 (HISTORICAL, fixed in /repo by 3fbfd09): a `CyclicError` returned by the repair of a callee
      inside `check_callee` means "recompute".  `false` = the code before the fix: the result is
      discarded with `let _ =` and the fingerprints of a callee that is still computing are compared, so
      a node that has just been found to lie on a cycle is cleaned with its old value. -/
  f16 : Bool := true
  /-- F33 (HISTORICAL, fixed in /repo by 4685b5a): `check_cyclic_internal` carries a visited set.
      `false` = the code before the fix: the walk follows a cycle of registered callees forever. -/
  f33 : Bool := true
  /-- F31: a node that was marked in an SCC while it was being *repaired* (a callee it re-verified
      closed a cycle through it) keeps the callees registered during the repair when it is re-executed
      (the code clears them, and the re-execution is aborted right after its first read because the
      mark is still set: the dependency on the callee that closed the cycle is lost and later changes
      below it never reach the node). -/
  f31 : Bool := false
  /-- candidate repair F32 (needs one more stored bit): a node whose last run ended inside an SCC is
      never cleaned — repairing it always re-executes it, so that the members of a former cycle are
      re-evaluated together instead of one of them being re-run against the others' stale defaults. -/
  f32 : Bool := false
  /-- F3/F31/F32 repair (in /repo: 1f41826; `false` = the code before it), part 1 (no stored bit needed): a run that ended inside an SCC records NO
      observations, and a node with a recorded callee that lacks an observation is always re-executed
      when it is repaired (its value is a cycle default: there is nothing to verify it against). -/
  f34 : Bool := true
  /-- part 2: a re-execution that starts from or ends in an SCC run and changes the value propagates
      dirtiness upward like a firewall does (the dirt that dissolved or created the cycle may have
      stopped at a firewall on the cycle and never passed through this node). -/
  f35 : Bool := true
  /-- part 3: a run that ended inside an SCC puts the node ITSELF into its transitive-firewall set;
      callers inherit it, so the trust rule (`f1p`) refuses every clean edge on the way down to it until
      it has been verified (re-executed) in the current epoch; `repair_transitive_firewall_callees`
      requests only genuine firewalls that are not marked that way (the members of a cycle hold each
      other in their sets: requesting them from there would chase the cycle forever — they are reached
      by the ordinary recursion, which detects cycles). -/
  f36 : Bool := true
  /-- F1, proposed repair: a clean edge is trusted (`NoNeed`) only when the callee's firewall frontier
      is settled in this epoch: the callee is an input / external, or a firewall verified in this
      epoch without a pending backward projection, or every firewall of the callee's recorded
      transitive-firewall-callee set is.  Otherwise the callee is repaired by ordinary recursion
      (query callers only: no nested firewall repair, no backward projection, hence no new waiting). -/
  f1p : Bool := true
  /-- F1 (second half), proposed repair: when a query is cleaned and its transitive-firewall-callee
      set is recomputed, the observations of its callees are refreshed with the callees' current
      TFC fingerprints (the code keeps the fingerprints seen at the last execution, so a callee whose
      set changes and later changes back to the originally observed one is not noticed: the caller
      keeps the intermediate set — an ABA on the TFC fingerprint). -/
  f1q : Bool := true
  /-- F1c, proposed repair (on top of `f1p`/`f1q`): a projection that is published with an unchanged
      value but a changed transitive-firewall-callee set — re-executed (`execute_query`, recompute
      branch) or cleaned with a recomputed set (`clean_query`) — is treated exactly like one whose value
      changed: it runs dirty propagation from itself and gets a pending backward projection.  Its
      callers are then repaired (the projections above it by backward projection), compare equal, and
      take the `cleaned(repairTfcNeeded)` path, which recomputes their sets.  Without it their sets stay as they
      were: dirty propagation from the firewall below stops at the projection, and nothing propagates
      from the projection because its value did not change. -/
  f1r : Bool := true
  /-- F13, repair: a projection reached by backward projection is REPAIRED pedantically (every
      recorded callee is repaired and compared, whatever the dirty marks say) instead of being
      re-executed unconditionally.  `false` = the code before the fix. -/
  f13 : Bool := true
  /-- not a finding: the code walks transitive-firewall-callee sets and backward-projection sets in
      hash-set order; the model walks them in ascending key order, or descending with this switch -/
  desc : Bool := false
  /-- not a finding: an ORDER TAPE for the same two walks.  The k-th walk over a set of ≥ 2 elements
      takes the `(tape[k] % n!)`-th permutation (Lehmer-code order; 0 = ascending) of the set.  With
      an empty tape the behaviour is as described for `desc`. -/
  tape : List Nat := []
  deriving Repr

structure St where
  epoch : Nat := 0
  nodes : List (Key × Node) := []
  back : List (Key × Key) := []        -- (callee, caller)
  dirty : List (Key × Key) := []       -- (caller, callee)
  dirtied : List Key := []             -- per-epoch de-duplication set of the dirty worker
  computing : List Comp := []          -- the computing table (a stack in a sequential run)
  bpLock : List Key := []              -- backward_projection_lock
  /-- keys whose `repair_transitive_firewall_callees` is in progress (innermost first) -/
  tfcStack : List Key := []
  world : List (Key × Val) := []
  log : List Key := []                 -- completed executor invocations since the last op
  dirtiedEdges : Nat := 0              -- statistic
  /-- number of times a set of ≥ 2 elements was walked in an order the code does not fix -/
  choicePoints : Nat := 0
  /-- position on the order tape (`Toggles.tape`) -/
  tapePos : Nat := 0
  deriving Repr

/-- State is kept when an error is raised: a Rust panic unwinds through drop guards that see (and
    clean up) the state as it is at the point of the panic, and `catch_unwind` continues from there. -/
abbrev M := ExceptT Err (StateM St)

def throwE {α} (e : Err) : M α := throw e

/-- runs the model on a state; also returns the state at the point where an error escaped -/
def runM' {α} (x : M α) (s : St) : Except Err α × St := (ExceptT.run x).run s

/-- runs the model on a state; the state is returned only when no error escaped -/
def runM {α} (x : M α) (s : St) : Except Err (α × St) :=
  match runM' x s with
  | (.ok a, s') => .ok (a, s')
  | (.error e, _) => .error e

/-- Unwinding: if `x` panics, `cleanup` (a drop guard) runs in the state at the panic and the panic
    continues.  Other errors (hang, out of fuel) end the run. -/
def onPanic {α} (x : M α) (cleanup : M Unit) : M α :=
  tryCatch x fun e =>
    match e with
    | .panic _ => do cleanup; throw e
    | _ => throw e

-- ------------------------------------------------------------------ small list utilities

def lookup {α} (k : Key) : List (Key × α) → Option α
  | [] => none
  | (k', v) :: r => if k = k' then some v else lookup k r

def upsert {α} (k : Key) (v : α) : List (Key × α) → List (Key × α)
  | [] => [(k, v)]
  | (k', v') :: r => if k = k' then (k, v) :: r else (k', v') :: upsert k v r

def insertSorted (k : Key) : List Key → List Key
  | [] => [k]
  | x :: r => if k < x then k :: x :: r else if k = x then x :: r else x :: insertSorted k r

def unionSorted (a b : List Key) : List Key := a.foldl (fun acc k => insertSorted k acc) b

def addPair (p : Key × Key) (l : List (Key × Key)) : List (Key × Key) :=
  if l.contains p then l else l ++ [p]

def removePair (p : Key × Key) (l : List (Key × Key)) : List (Key × Key) := l.filter (· != p)

def getNode (k : Key) : M (Option Node) := do return lookup k (← get).nodes
def setNode (k : Key) (n : Node) : M Unit := modify fun s => { s with nodes := upsert k n s.nodes }

def nodeDef (p : Program) (k : Key) : M NodeDef :=
  match p[k]? with
  | some d => pure d
  | none => throwE (.badOp s!"no such key {k}")

/-- `get_query_kind(..).unwrap()` on the stored kind. -/
def storedKind (k : Key) : M Kind := do
  match (← getNode k) with
  | some n => pure n.kind
  | none => throwE (.panic s!"get_query_kind unwrap: {k}")

def nodeInfoUnchecked (k : Key) : M Node := do
  match (← getNode k) with
  | some n => pure n
  | none => throwE (.panic s!"get_node_info_unchecked: {k}")

def callersOf (k : Key) : M (List Key) := do
  let s ← get
  return ((s.back.filter (·.1 == k)).map (·.2)).foldl (fun acc c => insertSorted c acc) []

-- ------------------------------------------------------------------ computing table

def findComp (k : Key) (cs : List Comp) : Option Comp := cs.find? (·.key == k)

def modifyComp (k : Key) (f : Comp → Comp) : M Unit :=
  modify fun s => { s with computing := s.computing.map fun c => if c.key == k then f c else c }

/-- `CalleeOrder::push` -/
def pushOrder (c : Comp) (callee : Key) : Comp :=
  if c.unorderedMode then
    match c.order.reverse with
    | .unordered ks :: rest => { c with order := (Dep.unordered (ks ++ [callee]) :: rest).reverse }
    | _ => c   -- unreachable: start_unordered_group pushed the group
  else { c with order := c.order ++ [.single callee] }

/-- `register_callee` + `QueryComputing::register_calee` (with the projection invariant check). -/
def registerCallee (p : Program) (caller : Caller) (callee : Key) : M Unit := do
  match caller with
  | .query c _ _ =>
    let s ← get
    match findComp c s.computing with
    | none => throwE (.panic s!"caller {c} has no computing state")
    | some comp =>
      if comp.kind == .external then throwE (.panic "ExternalInput queries cannot call other queries")
      if comp.kind == .projection then
        let d ← nodeDef p callee
        if !(d.kind == .firewall || d.kind == .projection) then
          throwE (.panic "Projection query can only depend on firewall or projection queries")
      if (lookup callee comp.callees).isSome then pure ()
      else modifyComp c fun comp => pushOrder { comp with callees := comp.callees ++ [(callee, none)] } callee
  | _ => pure ()

/-- `CalleeOrder::abort_callee` -/
def abortOrder (callee : Key) : List Dep → List Dep
  | [] => []
  | .single k :: r => if k == callee then r else .single k :: abortOrder callee r
  | .unordered ks :: r =>
    if ks.contains callee then
      -- swap_remove
      let i := ks.idxOf callee
      let last := ks.getLast?.getD callee
      let ks' := if i + 1 == ks.length then ks.dropLast else (ks.set i last).dropLast
      .unordered ks' :: r
    else .unordered ks :: abortOrder callee r

/-- `UndoRegisterCallee::drop` (not defused): `QueryComputing::abort_callee` -/
def undoRegister (caller : Caller) (callee : Key) : M Unit := do
  match caller with
  | .query c _ _ =>
    modifyComp c fun comp =>
      { comp with callees := comp.callees.filter (·.1 != callee), order := abortOrder callee comp.order }
  | _ => pure ()

/-- `check_cyclic_internal`: is `target` reachable from `k` through registered callees of computing
    nodes?  Marks every computing node on a path.  The walk carries a visited set (4685b5a, finding
    F33): a computing callee that was visited before is skipped (`return true` of the `iter_sync`
    closure = next callee), so every computing node is entered at most once — plus once more for the
    start node, which is not in the set — and the recursion always returns.  `fuel` (table size + 2)
    only makes the definition structurally recursive; running out of it cannot happen. -/
def checkCyclicV : Nat → Key → Key → List Key → M (Bool × List Key)
  | 0, _, _, _ =>
    throwE (.deadlock "check_cyclic_internal: model fuel exhausted (unreachable with the visited set)")
  | fuel + 1, k, target, vis => do
    let s ← get
    match findComp k s.computing with
    | none => pure (false, vis)
    | some comp =>
      if (lookup target comp.callees).isSome then
        modifyComp k fun c => { c with inScc := true }
        pure (true, vis)
      else
        let mut found := false
        let mut vis := vis
        for (callee, _) in comp.callees do
          let s ← get
          if (findComp callee s.computing).isSome then
            if vis.contains callee then continue
            vis := callee :: vis
            let (f, vis') ← checkCyclicV fuel callee target vis
            vis := vis'
            found := found || f
        if found then modifyComp k fun c => { c with inScc := true }
        pure (found, vis)

/-- `check_cyclic_internal` before 4685b5a (HISTORICAL, `Toggles.f33 = false`): no visited set, no
    short-circuit; going deeper than the number of computing nodes means a node repeats on the path,
    so the recursion never returns. -/
def checkCyclicOld : Nat → Key → Key → M Bool
  | 0, _, _ =>
    throwE (.deadlock "check_cyclic_internal recurses forever: the registered callees of computing queries form a cycle")
  | fuel + 1, k, target => do
    let s ← get
    match findComp k s.computing with
    | none => pure false
    | some comp =>
      if (lookup target comp.callees).isSome then
        modifyComp k fun c => { c with inScc := true }
        pure true
      else
        let mut found := false
        for (callee, _) in comp.callees do
          let s ← get
          if (findComp callee s.computing).isSome then
            let f ← checkCyclicOld fuel callee target
            found := found || f
        if found then modifyComp k fun c => { c with inScc := true }
        pure found

/-- `check_cyclic` (fresh visited set).  The first argument is kept for the call sites: the number
    of computing nodes + 1. -/
def checkCyclic (fuel : Nat) (k target : Key) (visitedSet : Bool := true) : M Bool := do
  if visitedSet then
    let (f, _) ← checkCyclicV (fuel + 1) k target []
    pure f
  else checkCyclicOld fuel k target

-- ------------------------------------------------------------------ order of hash-set walks

def factorial : Nat → Nat
  | 0 => 1
  | n + 1 => (n + 1) * factorial n

/-- the `r`-th permutation of `l` in Lehmer-code order (`r < l.length!`; 0 = `l` itself) -/
def nthPerm : Nat → Nat → List Key → List Key
  | 0, _, l => l
  | fuel + 1, r, l =>
    match l with
    | [] => []
    | _ =>
      let f := factorial (l.length - 1)
      let i := r / f
      match l[i]? with
      | some x => x :: nthPerm fuel (r % f) (l.eraseIdx i)
      | none => l

/-- The code walks this set in hash-set order.  Sets of ≥ 2 elements are choice points: the order is
    read from the tape (ascending when the tape has no entry left; with an empty tape: ascending, or
    descending under `desc`). -/
def permuteChoice (t : Toggles) (l : List Key) : M (List Key) := do
  if l.length < 2 then return l
  let s ← get
  let r := (t.tape[s.tapePos]?).getD 0
  set { s with choicePoints := s.choicePoints + 1, tapePos := s.tapePos + 1 }
  if t.tape.isEmpty then return (if t.desc then l.reverse else l)
  return nthPerm l.length (r % factorial l.length) l

-- ------------------------------------------------------------------ dirty propagation

/-- `DirtyWorker::process_task` over a work list, with the per-epoch `dirtied_queries` set. -/
def dirtyPropagate : Nat → List Key → M Unit
  | 0, [] => pure ()
  | 0, _ => throwE .outOfFuel
  | _, [] => pure ()
  | fuel + 1, x :: rest => do
    let s ← get
    if s.dirtied.contains x then dirtyPropagate fuel rest
    else
      set { s with dirtied := x :: s.dirtied }
      let callers ← callersOf x
      let mut next : List Key := []
      for c in callers do
        modify fun s => { s with dirty := addPair (c, x) s.dirty, dirtiedEdges := s.dirtiedEdges + 1 }
        let kc ← storedKind c
        if kc == .projection || kc == .firewall then pure ()
        else next := next ++ [c]
      dirtyPropagate fuel (rest ++ next)

-- ------------------------------------------------------------------ publishing

def removeBackEdges (k : Key) (fwd : List Dep) (alsoDirty : Bool) : M Unit :=
  modify fun s =>
    let callees := fwd.flatMap Dep.keys
    { s with
      back := callees.foldl (fun b c => removePair (c, k) b) s.back,
      dirty := if alsoDirty then callees.foldl (fun d c => removePair (k, c) d) s.dirty else s.dirty }

def addBackEdges (k : Key) (fwd : List Dep) : M Unit :=
  modify fun s => { s with back := (fwd.flatMap Dep.keys).foldl (fun b c => addPair (c, k) b) s.back }

def popComputing (k : Key) : M Unit := do
  let s ← get
  if (findComp k s.computing).isNone then
    throwE (.panic "the computing lock guard has dropped and tried to remove existing computing lock, but no entry found")
  set { s with computing := s.computing.filter (·.key != k) }

/-- `fast_path::observe_callee_fingerprint` -/
def observeCallee (caller : Key) (callee : Key) (n : Node) : M Unit := do
  let s ← get
  match findComp caller s.computing with
  | none => throwE (.panic "observe: caller has no computing state")
  | some comp =>
    if (lookup callee comp.callees).isNone then throwE (.panic "callee should have been registered")
    let addT : List Key := match n.kind with
      | .input | .external => []
      | .normal | .projection => n.tfc
      | .firewall => [callee]
    modifyComp caller fun c =>
      { c with callees := upsert callee (some { val := n.value, tfc := n.tfc }) c.callees,
               tfc := unionSorted addT c.tfc }

inductive Slow | compute | repair | bp deriving DecidableEq, Repr

inductive QRes | value (v : Option Val) | cyclic deriving Repr

inductive Check | recompute | noNeed | cleaned (repairTfc : Bool) (addToClean : Bool)

/-- result of running an executor -/
inductive Ran | done (v : Val) | panicked (msg : String)

/-- the payload of `CyclicPanicPayload::unwind()` -/
def cyclicPayload : String := "CyclicPanicPayload"

-- ------------------------------------------------------------------ the engine proper

mutual

/-- `Engine::query_for`, the loop unrolled over fuel. -/
def queryFor (t : Toggles) (p : Program) : Nat → Key → Caller → M QRes
  | 0, _, _ => throwE .outOfFuel
  | fuel + 1, k, caller => do
    registerCallee p caller k
    -- a panic unwinding through `query_for` drops the un-defused `UndoRegisterCallee`
    onPanic (queryLoop t p fuel k caller) (undoRegister caller k)

def queryLoop (t : Toggles) (p : Program) : Nat → Key → Caller → M QRes
  | 0, _, _ => throwE .outOfFuel
  | fuel + 1, k, caller => do
    -- exit_scc
    let s ← get
    if (findComp k s.computing).isSome then
      match caller with
      | .query c _ _ =>
        let cyc ← checkCyclic (s.computing.length + 1) k c t.f33
        if cyc then
          modifyComp c fun cc => { cc with inScc := true }
          return .cyclic
        else throwE (.deadlock s!"query {c} waits for computing {k} which is not its ancestor")
      | _ => pure ()
    -- fast path
    let now := (← get).epoch
    let slow : Option Slow ← do
      match (← getNode k) with
      | none => pure (some .compute)
      | some n =>
        if n.lastVerified != now then pure (some .repair)
        else if (caller == .repairFirewall || caller == .bpp) && (if t.f14 then n.pendingBP.isSome else n.pendingBP == some now) then pure (some .bp)
        else pure none
    match slow with
    | none =>
      let n ← nodeInfoUnchecked k
      match caller with
      | .query c true _ => observeCallee c k n
      | _ => pure ()
      let requireValue := match caller with
        | .user => true
        | .query _ rv _ => rv
        | _ => false
      -- is_query_running_in_scc(caller)
      match caller with
      | .query c _ _ =>
        match findComp c (← get).computing with
        | some cc => if cc.inScc then return .cyclic
        | none => pure ()
      | _ => pure ()
      return .value (if requireValue then some n.value else none)
    | some sp =>
      let nonPedanticQuery := match caller with
        | .query _ _ ped => !ped
        | _ => false
      if sp == .repair && (caller == .user || caller == .repairFirewall || (t.f1 && nonPedanticQuery)) then
        -- The firewalls are repaired before `k`'s computing lock is taken and `k` stays unverified
        -- meanwhile.  If `k` is (transitively) in its own firewall set — a firewall on a dependency
        -- cycle — the nested request for `k` finds it unverified and not computing and starts the same
        -- repair again, each time in a freshly spawned task: unbounded recursion, the request never
        -- completes.
        if (← get).tfcStack.contains k then
          throwE (.deadlock s!"repair_transitive_firewall_callees of {k} requests itself: unbounded recursion")
        modify fun s => { s with tfcStack := k :: s.tfcStack }
        repairTfc t p fuel k
        modify fun s => { s with tfcStack := s.tfcStack.erase k }
      -- get_write_guard
      match sp with
      | .bp =>
        let n ← nodeInfoUnchecked k
        if (if t.f14 then n.pendingBP.isNone else n.pendingBP != some now) then queryLoop t p fuel k caller
        else
          if (← get).bpLock.contains k then throwE (.deadlock s!"backward projection lock of {k} is held")
          modify fun s => { s with bpLock := k :: s.bpLock }
          onPanic (invokeBackwardProjections t p fuel k)
            (modify fun s => { s with bpLock := s.bpLock.filter (· != k) })
          queryLoop t p fuel k caller
      | _ =>
        -- computing_lock_guard: double check
        let nd ← getNode k
        match nd with
        | some n =>
          if n.lastVerified == now then queryLoop t p fuel k caller
          else
            if (findComp k (← get).computing).isSome then throwE (.deadlock s!"computing lock of {k} is held")
            modify fun s => { s with computing := { key := k, kind := n.kind, callees := [], order := [], unorderedMode := false, inScc := false, tfc := [] } :: s.computing }
            onPanic (repairQuery t p fuel k caller) (popComputing k)
            queryLoop t p fuel k caller
        | none =>
          let d ← nodeDef p k
          if d.kind == .input then throwE (.panic s!"Failed to find executor for query (input {k} was never set)")
          if (findComp k (← get).computing).isSome then throwE (.deadlock s!"computing lock of {k} is held")
          modify fun s => { s with computing := { key := k, kind := d.kind, callees := [], order := [], unorderedMode := false, inScc := false, tfc := [] } :: s.computing }
          onPanic (executeQuery t p fuel k false caller) (popComputing k)
          queryLoop t p fuel k caller

/-- `repair_transitive_firewall_callees` -/
def repairTfc (t : Toggles) (p : Program) : Nat → Key → M Unit
  | 0, _ => throwE .outOfFuel
  | fuel + 1, k => do
    let n ← match (← getNode k) with
      | some n => pure n
      | none => throwE (.panic "repair_transitive_firewall_callees: node_info unwrap")
    let mut fws : List Key := []
    for f in n.tfc do
      if !t.f36 then fws := fws ++ [f]
      else
        let selfMarked := match (← getNode f) with
          | some fn => fn.tfc.contains f
          | none => false
        if f != k && (← storedKind f) == .firewall && !selfMarked then fws := fws ++ [f]
    for f in (← permuteChoice t fws) do
      let _ ← queryFor t p fuel f .repairFirewall

/-- `invoke_backward_projections` + `done_backward_projection` -/
def invokeBackwardProjections (t : Toggles) (p : Program) : Nat → Key → M Unit
  | 0, _ => throwE .outOfFuel
  | fuel + 1, k => do
    let callers ← callersOf k
    let mut projs : List Key := []
    for c in callers do
      if (← storedKind c) == .projection then projs := projs ++ [c]
    for pj in (← permuteChoice t projs) do
      let _ ← queryFor t p fuel pj .bpp
    let n ← nodeInfoUnchecked k
    setNode k { n with pendingBP := none }
    -- @publish `done_backward_projection`: submit_write_buffer(tx)
    let s ← get
    if !s.bpLock.contains k then throwE (.panic "backward projection lock entry missing")
    set { s with bpLock := s.bpLock.filter (· != k) }

/-- `check_callee` -/
def checkCallee (t : Toggles) (p : Program) : Nat → Key → Kind → Key → List (Key × Obs) → Bool → M Check
  | 0, _, _, _, _, _ => throwE .outOfFuel
  | fuel + 1, k, kindK, callee, obs, pedantic => do
    let edgeDirty := (← get).dirty.contains (k, callee)
    if !edgeDirty && !pedantic && kindK != .projection then
      if !t.f1p then return .noNeed
      let now := (← get).epoch
      let kc0 ← storedKind callee
      let frontier : List Key ← match kc0 with
        | .input | .external => pure []
        | .firewall => pure [callee]
        | _ => do pure (← nodeInfoUnchecked callee).tfc
      let mut trust := true
      for f in frontier do
        match (← getNode f) with
        | some n => if !(n.lastVerified == now && n.pendingBP.isNone) then trust := false
        | none => trust := false
      if trust then return .noNeed
    let kc ← storedKind callee
    if kc != .input then
      match (← queryFor t p fuel callee (.query k false pedantic)) with
      | .cyclic => if t.f16 then return .recompute
      | _ => pure ()
    let cn ← nodeInfoUnchecked callee
    match lookup callee obs with
    | none =>
      if t.f2 then return .recompute
      else throwE (.panic "check_callee: forward_edge_observation.get(callee).unwrap() on a callee without observation")
    | some o =>
      if cn.value != o.val then return .recompute
      let repairTfcNeeded := kc != .firewall && cn.tfc != o.tfc
      return .cleaned repairTfcNeeded edgeDirty

/-- `repair_query` = `should_recompute_query` then `execute_query(Recompute)` -/
def repairQuery (t : Toggles) (p : Program) : Nat → Key → Caller → M Unit
  | 0, _, _ => throwE .outOfFuel
  | fuel + 1, k, caller => do
    if caller == .bpp && !t.f13 then
      modifyComp k fun c => { c with callees := [], order := [], unorderedMode := false }
      executeQuery t p fuel k true caller
    else
      let n ← nodeInfoUnchecked k
      let pedantic := match caller with
        | .query _ _ ped => ped
        | .bpp => true
        | _ => false
      let mut recompute := (t.f32 && n.sccRun) || (t.f34 && (n.fwd.flatMap Dep.keys).any fun c => (lookup c n.obs).isNone)
      let mut needTfc := false
      let mut cleaned : List Key := []
      for dep in n.fwd do
        if recompute then break
        match dep with
        | .single callee =>
          match (← checkCallee t p fuel k n.kind callee n.obs pedantic) with
          | .recompute => recompute := true
          | .noNeed => pure ()
          | .cleaned rt add =>
            if add then cleaned := cleaned ++ [callee]
            if rt then needTfc := true
        | .unordered ks =>
          -- one spawned task per chunk (chunks of one callee for small groups), run one after the
          -- other; a `Recompute` decision sets the `cancelled` flag (later chunks return at once); a
          -- task that panics is a `JoinError`, which the parent counts as "recompute" (the panic is
          -- swallowed) without cancelling the chunks that have not run yet
          let mut cancelled := false
          for callee in ks do
            if cancelled then break
            let r : Option Check ← tryCatch (some <$> checkCallee t p fuel k n.kind callee n.obs pedantic) fun e =>
              match e with
              | .panic _ => pure none
              | _ => throw e
            match r with
            | none => recompute := true
            | some .recompute => recompute := true; cancelled := true
            | some .noNeed => pure ()
            | some (.cleaned rt add) =>
              if add then cleaned := cleaned ++ [callee]
              if rt then needTfc := true
      if recompute then
        let keep := t.f31 && ((findComp k (← get).computing).map (·.inScc)).getD false
        if !keep then
          modifyComp k fun c => { c with callees := [], order := [], unorderedMode := false }
        executeQuery t p fuel k true caller
      else
        -- computing_lock_to_clean_query / clean_query
        let n ← nodeInfoUnchecked k
        let mut newTfc := n.tfc
        if needTfc then
          newTfc := []
          for x in n.fwd.flatMap Dep.keys do
            let kx ← storedKind x
            if kx == .firewall then newTfc := insertSorted x newTfc
            else
              let xn ← nodeInfoUnchecked x
              newTfc := unionSorted xn.tfc newTfc
        let mut newObs := n.obs
        if needTfc && t.f1q then
          newObs := []
          for (x, o) in n.obs do
            match (← getNode x) with
            | some xn => newObs := newObs ++ [(x, { o with tfc := xn.tfc })]
            | none => newObs := newObs ++ [(x, o)]
        modify fun s => { s with dirty := cleaned.foldl (fun d c => removePair (k, c) d) s.dirty }
        let tfcChanged := t.f1r && n.kind == .projection && newTfc != n.tfc
        if tfcChanged then
          dirtyPropagate (fuel + (← get).back.length + 2) [k]
        let nowC := (← get).epoch
        setNode k { n with tfc := newTfc, obs := newObs, lastVerified := nowC,
                           pendingBP := if tfcChanged then some nowC else n.pendingBP }
        -- @publish `clean_query`: submit_write_buffer(tx)
        popComputing k

/-- runs the executor of `owner` -/
def runProg (t : Toggles) (p : Program) : Nat → Key → Bool → Prog → M Val
  | 0, _, _, _ => throwE .outOfFuel
  | fuel + 1, owner, pedantic, prog => do
    match prog with
    | .ret v => pure v
    | .world k cont =>
      let v := (lookup k (← get).world).getD 0
      runProg t p fuel owner pedantic (cont v)
    | .ask k cont =>
      match (← queryFor t p fuel k (.query owner true pedantic)) with
      | .cyclic => throwE (.panic cyclicPayload)
      | .value none => throwE (.panic "Query did not return a value")
      | .value (some v) => runProg t p fuel owner pedantic (cont v)
    | .askAll ks cont =>
      modifyComp owner fun c => { c with unorderedMode := true, order := c.order ++ [.unordered []] }
      let mut vs : List Val := []
      for k in ks do
        match (← queryFor t p fuel k (.query owner true pedantic)) with
        | .cyclic => throwE (.panic cyclicPayload)
        | .value none => throwE (.panic "Query did not return a value")
        | .value (some v) => vs := vs ++ [v]
      modifyComp owner fun c => { c with unorderedMode := false }
      runProg t p fuel owner pedantic (cont vs)

/-- `execute_query` + `computing_lock_to_computed` + `set_computed` -/
def executeQuery (t : Toggles) (p : Program) : Nat → Key → Bool → Caller → M Unit
  | 0, _, _, _ => throwE .outOfFuel
  | fuel + 1, k, isRecompute, caller => do
    let d ← nodeDef p k
    let pedantic := match caller with
      | .query _ _ ped => ped
      | .bpp => true
      | _ => false
    -- `invoke_executor`: `catch_unwind` around the executor (any panic, not only the cyclic payload)
    let ran : Ran ← tryCatch (Ran.done <$> runProg t p fuel k pedantic d.prog) fun e =>
      match e with
      | .panic m => pure (.panicked m)
      | _ => throw e
    modify fun s => { s with log := s.log ++ [k] }
    let comp ← match findComp k (← get).computing with
      | some c => pure c
      | none => throwE (.panic "execute_query: computing state missing")
    let value ← match comp.inScc, ran with
      | true, _ => pure d.dflt          -- whatever the executor did, also a genuine panic, is discarded
      | false, .done v => pure v
      | false, .panicked m => throwE (.panic m)   -- `panic.resume_unwind()`
    let now := (← get).epoch
    let old ← getNode k
    let needBP ← match old with
      | some o =>
        if (o.kind == .firewall || o.kind == .projection) && isRecompute then
          if o.value != value || (t.f1r && o.kind == .projection && o.tfc != (if t.f36 && comp.inScc then insertSorted k comp.tfc else comp.tfc)) then
            dirtyPropagate (fuel + (← get).back.length + 2) [k]
            pure true
          else pure false
        else
          if t.f35 && isRecompute && o.value != value && (o.tfc.contains k || o.sccRun || comp.inScc) then
            dirtyPropagate (fuel + (← get).back.length + 2) [k]
          pure false
      | none => pure false
    match old with
    | some o => removeBackEdges k o.fwd isRecompute
    | none => pure ()
    let observations : List (Key × Obs) :=
      if (t.f3 || t.f34) && comp.inScc then [] else comp.callees.filterMap fun (c, o) => o.map fun o => (c, o)
    setNode k {
      kind := comp.kind, lastVerified := now, value := value, fwd := comp.order,
      obs := observations, tfc := (if t.f36 && comp.inScc then insertSorted k comp.tfc else comp.tfc),
      pendingBP := if needBP then some now else (old.bind (·.pendingBP)),
      sccRun := comp.inScc }
    addBackEdges k comp.order
    -- @publish `set_computed`: submit_write_buffer(tx)
    popComputing k

end

-- ------------------------------------------------------------------ user-level operations

def fuelFor (p : Program) (s : St) : Nat := 40 * (p.length + 2) * (p.length + 2) + 4 * s.back.length + 200

/-- `TrackedEngine::query` from the user, one tracked engine per round with its local cache. -/
def userQuery (t : Toggles) (p : Program) (k : Key) : M Val := do
  let s ← get
  match (← queryFor t p (fuelFor p s) k .user) with
  | .value (some v) => pure v
  | .value none => throwE (.panic "Query did not return a value")
  | .cyclic => throwE (.panic "CyclicError at the root")

inductive Write | set (k : Key) (v : Val) | refresh | world (k : Key) (v : Val)
  deriving Repr

inductive SetRes | fresh | updated | unchanged | refreshed | world
  deriving Repr, DecidableEq

/-- `set_computed_input` -/
def setComputedInput (k : Key) (v : Val) (setInput : Bool) : M Unit := do
  let old ← getNode k
  match old with
  | some o => removeBackEdges k o.fwd false
  | none => pure ()
  let now := (← get).epoch
  let kind := if setInput then Kind.input else (old.map (·.kind)).getD .external
  setNode k { kind := kind, lastVerified := now, value := v, fwd := [], obs := [], tfc := [],
              pendingBP := old.bind (·.pendingBP) }

/-- One input session: `input_session()` (epoch bump), the writes, `commit()`. -/
def session (p : Program) (ws : List Write) : M (List SetRes) := do
  -- world writes are applied by the harness before the session starts
  for w in ws do
    match w with
    | .world k v => modify fun s => { s with world := upsert k v s.world }
    | _ => pure ()
  modify fun s => { s with epoch := s.epoch + 1 }
  let mut batch : List Key := []
  let mut out : List SetRes := []
  for w in ws do
    match w with
    | .world _ _ => out := out ++ [.world]
    | .set k v =>
      let d ← nodeDef p k
      if d.kind != .input then throwE (.badOp s!"set on non-input {k}")
      let r := match (← getNode k) with
        | none => SetRes.fresh
        | some n => if n.value != v then .updated else .unchanged
      if r == .updated then batch := batch ++ [k]
      setComputedInput k v true
      out := out ++ [r]
    | .refresh =>
      -- every key recorded in `external_input_queries` (= computed external nodes)
      let exts := ((← get).nodes.filter fun (_, n) => n.kind == .external).map (·.1)
      let exts := exts.foldl (fun acc k => insertSorted k acc) []
      let mut results : List (Key × Val) := []
      for k in exts do
        let d ← nodeDef p k
        let v ← match d.prog with
          | .world c cont => match cont ((lookup c (← get).world).getD 0) with
            | .ret v => pure v
            | _ => throwE (.badOp "external executor must be `world k; ret`")
          | .ret v => pure v
          | _ => throwE (.badOp "external executor must not query")
        modify fun s => { s with log := s.log ++ [k] }
        results := results ++ [(k, v)]
      for (k, v) in results do
        let n ← nodeInfoUnchecked k
        if n.value != v then batch := batch ++ [k]
        setComputedInput k v false
      out := out ++ [.refreshed]
  -- commit_internal
  modify fun s => { s with dirtied := [], dirtiedEdges := 0 }
  dirtyPropagate (4 * (← get).back.length + p.length + 8) batch
  -- @publish `commit_internal`: submit_write_buffer(transaction)
  pure out

/-- One round: one tracked engine, keys queried in order through its local cache. -/
def round (t : Toggles) (p : Program) (ks : List Key) : M (List Val) := do
  let mut cache : List (Key × Val) := []
  let mut out : List Val := []
  for k in ks do
    match lookup k cache with
    | some v => out := out ++ [v]
    | none =>
      let v ← userQuery t p k
      cache := cache ++ [(k, v)]
      out := out ++ [v]
  pure out

-- ------------------------------------------------------------------ specification (acyclic)

/-- From-scratch evaluation with fuel (= rank bound); `none` = out of fuel / missing input. -/
def evalProg (inputs : Key → Option Val) (ext : Key → Val) (rec : Key → Option Val) : Prog → Nat → Option Val
  | _, 0 => none
  | .ret v, _ => some v
  | .world k cont, n + 1 => evalProg inputs ext rec (cont (ext k)) n
  | .ask k cont, n + 1 => match rec k with
    | some v => evalProg inputs ext rec (cont v) n
    | none => none
  | .askAll ks cont, n + 1 =>
    match ks.mapM rec with
    | some vs => evalProg inputs ext rec (cont vs) n
    | none => none

def evalSpec (p : Program) (inputs : Key → Option Val) (ext : Key → Val) : Nat → Key → Option Val
  | 0, _ => none
  | fuel + 1, k =>
    match p[k]? with
    | none => none
    | some d =>
      match d.kind with
      | .input => inputs k
      | .external => some (ext k)
      | _ => evalProg inputs ext (evalSpec p inputs ext fuel) d.prog 1000000

end Qbice.Engine
