/-
Three labelled transition systems for C02 ("concurrent querying is sound, single-flight and
terminates").  Each is an abstraction of one mechanism of /repo/crates/qbice/src/engine/computation_graph:

  `CT`  ComputingTable   computing.rs `computing_lock_guard`, `ComputingLockGuard::done`, `exit_scc`,
                         computation_graph.rs `query_for` (the fast path → write guard → process → retry
                         loop), database/snapshot.rs (the per-query shared/exclusive lock held by a
                         `Snapshot`), database.rs `set_computed` / `clean_query` (publish)
  `TS`  TieredSet        database.rs `impl ConcurrentSet for CompressedBackwardEdgeSet`
                         (`insert_element`, `remove_element`, `len`, `iter`), threshold as a parameter
                         (32 in the code); toggle `fixed` = the repaired upgrade (finding F6)
  `LT`  LockTable        query_lock_manager.rs `get_lock_instance` over a cache that may evict every
                         entry nobody else references

One event per atomic step of the code: one `scc::HashMap::entry_sync`/`read_sync`/`remove_sync`
critical section, one `Notify::notify_waiters`, one acquisition of a tokio / parking_lot lock, one
critical section under the locks of the tiered set.  `step s ev = none` means "not enabled".

Imports nothing outside core.
-/

namespace QbiceVerif.Lts

/-! ## 1. ComputingTable -/

namespace CT

/-- Program counter of one request (one invocation of `Engine::query_for`).  The names follow the
code; the owner of a table entry is identified by its task index (one `Arc<QueryComputing>` with its
own `Notify` per insertion). -/
inductive Pc
  | loopHead                    -- top of the `loop` in `query_for`: about to run `exit_scc`'s `read_sync`
  | sccWait (o : Nat)           -- `exit_scc`: `notified.await` on the entry inserted by task `o`
  | snap                        -- `get_read_snapshot`: waiting for the shared query lock
  | fast                        -- holds the shared lock, about to run `fast_path`
  | guardA                      -- holds the shared lock, `fast_path` missed (`last_verified` cached in the snapshot)
  | resnap                      -- lock released for `repair_transitive_firewall_callees`; re-acquiring
  | guardB                      -- holds the shared lock again (fresh snapshot: the double check reads anew)
  | wait (o : Nat)              -- `computing_lock_guard` Occupied: `notified_owned.await` on `o`'s entry
  | exec (budget : Nat)         -- owner: executor / repair running under the shared lock; may still issue `budget` queries
  | wantX                       -- owner: `upgrade_to_exclusive` released the shared lock, waiting for the exclusive one
  | publish                     -- owner: holds the exclusive lock, about to write `last_verified := timestamp`
  | remove                      -- owner: `ComputingLockGuard::done`, about to `remove_sync`
  | notify                      -- owner: entry removed, about to `notify_waiters`
  | done                        -- `query_for` returned (fast path hit)
  | removeA                     -- cancelled owner: `Drop for ComputingLockGuard` → `done()`, about to `remove_sync`
  | notifyA                     -- cancelled owner: entry removed, about to `notify_waiters`
  | gone                        -- the request's future was dropped (cancelled by the repair of its caller)
deriving DecidableEq, Repr, Inhabited

def Pc.holdsShared : Pc → Bool
  | .fast | .guardA | .guardB | .exec _ => true
  | _ => false

def Pc.isOwner : Pc → Bool
  | .exec _ | .wantX | .publish | .remove | .removeA => true
  | _ => false

/-- the request has ended: it returned, or its future was dropped -/
def Pc.ended : Pc → Bool
  | .done | .gone => true
  | _ => false

/-- a caller in this state may drop (or has dropped) the futures of its nested requests: the repair
of an owner cancels the remaining callee checks of an unordered group as soon as one of them asks
for a recomputation (`check_callee_chunked`), and a cancelled caller takes its nested requests with it -/
def Pc.cancelsChildren : Pc → Bool
  | .exec _ | .removeA | .notifyA | .gone => true
  | _ => false

def Pc.waitingOn : Pc → Option Nat
  | .sccWait o | .wait o => some o
  | _ => none

structure Task where
  key : Nat := 0
  pc : Pc := .done
  /-- the request was issued by the executor of this task (`None`: a user's `TrackedEngine::query`) -/
  parent : Option Nat := none
  /-- the `Notified` future this task awaits has been completed by `notify_waiters` -/
  woken : Bool := false
deriving DecidableEq, Repr, Inhabited

structure State where
  /-- number of requests created so far; `task i` for `i ≥ n` is the default (`done`) -/
  n : Nat
  task : Nat → Task
  /-- `last_verified(k) = current timestamp` -/
  verified : Nat → Bool
  /-- `Computing.computing_lock`: key ↦ the task that inserted the entry -/
  table : Nat → Option Nat
  /-- ghost: publications in order (newest first): (key, publishing task) -/
  log : List (Nat × Nat)
  /-- an executor issues at most this many queries (executors are finite; any bound) -/
  maxCalls : Nat

def State.setTask (s : State) (i : Nat) (t : Task) : State :=
  { s with task := fun j => if j = i then t else s.task j }

/-- no task `j < n` with key `k` has a program counter satisfying `p` -/
def State.noneWith (s : State) (k : Nat) (p : Pc → Bool) : Bool :=
  (List.range s.n).all fun j => !((s.task j).key == k && p (s.task j).pc)

/-- every request issued by task `i` has returned or was cancelled -/
def State.childrenDone (s : State) (i : Nat) : Bool :=
  (List.range s.n).all fun j => !((s.task j).parent == some i && !(s.task j).pc.ended)

inductive Ev
  | loopHead (i : Nat)      -- `exit_scc`: `try_get_notified_computing_lock` (one `read_sync`)
  | wake (i : Nat)          -- the awaited `Notified` completes
  | snap (i : Nat)          -- the shared query lock is granted
  | fast (i : Nat)          -- `fast_path` under the shared lock
  | tfcRelease (i : Nat)    -- `repair_transitive_firewall_callees`: the snapshot is given up first
  | tryInsert (i : Nat)     -- `computing_lock_guard`: double check, then one `entry_sync`
  | call (i d : Nat)        -- the executor of `i` queries `d`
  | execDone (i : Nat)      -- the executor returned; `upgrade_to_exclusive` drops the shared lock
  | lockX (i : Nat)         -- the exclusive query lock is granted
  | publish (i : Nat)       -- `set_computed` / `clean_query`, then the exclusive lock is dropped
  | remove (i : Nat)        -- `done()`: `remove_sync`
  | notify (i : Nat)        -- `done()`: `notify_waiters`
  | abort (j : Nat)         -- the future of a nested request is dropped at an await point
  | removeA (i : Nat)       -- cancelled owner, `Drop` → `done()`: `remove_sync`
  | notifyA (i : Nat)       -- cancelled owner: `notify_waiters`
deriving DecidableEq, Repr, Inhabited

def step (s : State) : Ev → Option State
  | .loopHead i =>
    let t := s.task i
    if i < s.n ∧ t.pc = .loopHead then
      -- a user request (no query caller) returns from `exit_scc` before awaiting; a nested request
      -- creates the `Notified` inside the `read_sync` critical section and awaits it (acyclic
      -- programs: `check_cyclic` finds nothing)
      match t.parent, s.table t.key with
      | some _, some o => some (s.setTask i { t with pc := .sccWait o, woken := false })
      | _, _ => some (s.setTask i { t with pc := .snap })
    else none
  | .wake i =>
    let t := s.task i
    if i < s.n ∧ t.woken = true then
      match t.pc with
      | .sccWait _ => some (s.setTask i { t with pc := .snap, woken := false })
      | .wait _ => some (s.setTask i { t with pc := .loopHead, woken := false })
      | _ => none
    else none
  | .snap i =>
    let t := s.task i
    if i < s.n ∧ s.noneWith t.key (fun p => p == .publish) = true then
      match t.pc with
      | .snap => some (s.setTask i { t with pc := .fast })
      | .resnap => some (s.setTask i { t with pc := .guardB })
      | _ => none
    else none
  | .fast i =>
    let t := s.task i
    if i < s.n ∧ t.pc = .fast then
      if s.verified t.key = true then some (s.setTask i { t with pc := .done })
      else some (s.setTask i { t with pc := .guardA })
    else none
  | .tfcRelease i =>
    let t := s.task i
    if i < s.n ∧ t.pc = .guardA then some (s.setTask i { t with pc := .resnap }) else none
  | .tryInsert i =>
    let t := s.task i
    if i < s.n ∧ (t.pc = .guardA ∨ t.pc = .guardB) then
      -- the double check reads the snapshot's `last_verified`: cached (a miss) for `guardA`, read anew for `guardB`
      if t.pc = .guardB ∧ s.verified t.key = true then some (s.setTask i { t with pc := .loopHead })
      else
        match s.table t.key with
        | some o =>
          -- Occupied: the `OwnedNotified` is created before the entry guard is dropped
          some (s.setTask i { t with pc := .wait o, woken := false })
        | none =>
          some { (s.setTask i { t with pc := .exec s.maxCalls }) with
                 table := fun k => if k = t.key then some i else s.table k }
    else none
  | .call i d =>
    let t := s.task i
    if i < s.n ∧ d < t.key then
      match t.pc with
      | .exec (b + 1) =>
        let s1 := s.setTask i { t with pc := .exec b }
        some { (s1.setTask s.n { key := d, pc := .loopHead, parent := some i, woken := false }) with n := s.n + 1 }
      | _ => none
    else none
  | .execDone i =>
    let t := s.task i
    if i < s.n ∧ s.childrenDone i = true then
      match t.pc with
      | .exec _ => some (s.setTask i { t with pc := .wantX })
      | _ => none
    else none
  | .lockX i =>
    let t := s.task i
    if i < s.n ∧ t.pc = .wantX ∧ s.noneWith t.key (fun p => p.holdsShared || p == .publish) = true then
      some (s.setTask i { t with pc := .publish })
    else none
  | .publish i =>
    let t := s.task i
    if i < s.n ∧ t.pc = .publish then
      some { (s.setTask i { t with pc := .remove }) with
             verified := fun k => if k = t.key then true else s.verified k,
             log := (t.key, i) :: s.log }
    else none
  | .remove i =>
    let t := s.task i
    if i < s.n ∧ t.pc = .remove then
      some { (s.setTask i { t with pc := .notify }) with
             table := fun k => if k = t.key then none else s.table k }
    else none
  | .notify i =>
    let t := s.task i
    if i < s.n ∧ t.pc = .notify then
      -- `notify_waiters` completes exactly the `Notified` futures created on this entry's `Notify` so far
      some { s with task := fun j =>
               if j = i then { t with pc := .loopHead }
               else if (s.task j).pc.waitingOn = some i then { s.task j with woken := true }
               else s.task j }
    else none
  | .abort j =>
    let t := s.task j
    match t.parent with
    | some p =>
      if j < s.n ∧ (s.task p).pc.cancelsChildren = true then
        match t.pc with
        -- the owner's guard is dropped with the future: `Drop` runs `done()` (two more steps).  After the
        -- executor has returned the publication runs inside `.guarded()` and cannot be cancelled; the
        -- wait for the exclusive lock of the clean-only path (`computing_lock_to_clean_query`) can
        | .exec _ | .wantX => some (s.setTask j { t with pc := .removeA })
        | .loopHead | .sccWait _ | .snap | .fast | .guardA | .resnap | .guardB | .wait _ =>
          some (s.setTask j { t with pc := .gone })
        | _ => none
      else none
    | none => none          -- a user request is never cancelled here (C05 covers that)
  | .removeA i =>
    let t := s.task i
    if i < s.n ∧ t.pc = .removeA then
      some { (s.setTask i { t with pc := .notifyA }) with
             table := fun k => if k = t.key then none else s.table k }
    else none
  | .notifyA i =>
    let t := s.task i
    if i < s.n ∧ t.pc = .notifyA then
      some { s with task := fun j =>
               if j = i then { t with pc := .gone }
               else if (s.task j).pc.waitingOn = some i then { s.task j with woken := true }
               else s.task j }
    else none

/-- Any number of user requests (`roots`: their keys, in any multiplicity), nothing verified yet in
this epoch, empty table. -/
def init (roots : List Nat) (maxCalls : Nat) : State :=
  { n := roots.length,
    task := fun i => match roots[i]? with
      | some k => { key := k, pc := .loopHead, parent := none, woken := false }
      | none => {},
    verified := fun _ => false, table := fun _ => none, log := [],
    maxCalls := maxCalls }

inductive Reachable (roots : List Nat) (maxCalls : Nat) : State → Prop
  | init : Reachable roots maxCalls (init roots maxCalls)
  | step {s s' : State} (ev : Ev) : Reachable roots maxCalls s → step s ev = some s' → Reachable roots maxCalls s'

/-- A run: the events of a schedule fired one after the other. -/
inductive Run : State → List Ev → State → Prop
  | nil (s : State) : Run s [] s
  | cons {s s' s'' : State} (ev : Ev) {evs : List Ev} : step s ev = some s' → Run s' evs s'' → Run s (ev :: evs) s''

/-- fire a schedule; `none` if some event was not enabled -/
def runEvs (s : State) : List Ev → Option State
  | [] => some s
  | ev :: rest =>
    match step s ev with
    | some s' => runEvs s' rest
    | none => none

/-! ### the view of one key that the hook events of the implementation expose

The hooks (`verif_point!`) carry a query id and an instance id but no task identity, so an
implementation trace is replayed through the shared state of the model restricted to one key.
`done_` is emitted between `remove_sync` and `notify_waiters`, and stands for both steps. -/

structure KeyState where
  verified : Bool := false
  entry : Option Nat := none
  /-- `Notified` futures created on the current entry and not yet notified -/
  unnotified : Nat := 0
  /-- notified and not yet resumed (a user request's `exit_scc` drops its future without awaiting) -/
  pool : Nat := 0
deriving DecidableEq, Repr, Inhabited

inductive KEv
  | miss | hit | none_ | vacant (g : Nat) | reg (g : Nat) | publish | done_ (g : Nat) | woken | epoch | end_
deriving DecidableEq, Repr, Inhabited

def kStep (ks : KeyState) : KEv → Option KeyState
  | .miss => if ks.verified = false then some ks else none
  | .hit => if ks.verified = true then some ks else none
  | .none_ => if ks.verified = true then some ks else none
  | .vacant g => if ks.entry = none ∧ ks.verified = false ∧ ks.unnotified = 0 then some { ks with entry := some g } else none
  | .reg g => if ks.entry = some g then some { ks with unnotified := ks.unnotified + 1 } else none
  | .publish => if ks.entry.isSome = true ∧ ks.verified = false then some { ks with verified := true } else none
  | .done_ g =>
    if ks.entry = some g then
      some { ks with entry := none, unnotified := 0, pool := ks.pool + ks.unnotified }
    else none
  | .woken => if 0 < ks.pool then some { ks with pool := ks.pool - 1 } else none
  | .epoch => if ks.entry = none ∧ ks.unnotified = 0 then some { ks with verified := false, pool := 0 } else none
  | .end_ => if ks.entry = none ∧ ks.unnotified = 0 then some ks else none

end CT

/-! ## 2. TieredSet -/

namespace TS

/-- `TieredStorage`: `Small(RwLock<Vec>)` / `Large(DashSet)`. -/
inductive Store
  | small (vec : List Nat)
  | large (set : List Nat)
deriving DecidableEq, Repr, Inhabited

def Store.content : Store → List Nat
  | .small v => v
  | .large l => l

inductive TPc
  | idle
  /-- as-is `insert_element`: the vector was drained into the local `large_set`, both locks were
  dropped; about to take the outer write lock and store `Large(loc)` -/
  | publish (loc : List Nat) (x : Nat) (res : Bool)
  /-- repaired `insert_element`: the vector was found full, both locks were dropped, nothing was
  moved; about to take the outer write lock and convert after a re-check -/
  | upgrade (x : Nat)
  /-- holds the outer read lock (and the inner read lock of a small vector) -/
  | iter
deriving DecidableEq, Repr, Inhabited

inductive Op
  | ins (x : Nat) | rem (x : Nat) | len | iter
deriving DecidableEq, Repr, Inhabited

inductive Ret
  | bool (b : Bool) | nat (n : Nat) | list (l : List Nat)
deriving DecidableEq, Repr, Inhabited

structure State where
  /-- the upgrade threshold (`vec.len() == 32` in the code) -/
  T : Nat
  /-- `false`: the code as it is; `true`: conversion under the outer write lock with a re-check -/
  fixed : Bool
  store : Store
  pc : Nat → TPc
  /-- live iterators = holders of the outer read lock across events -/
  readers : Nat
  /-- ghost: completed operations (thread, operation, result) in the order of their completing events -/
  hist : List (Nat × Op × Ret)

inductive Ev
  | ins (t x : Nat)      -- first critical section of `insert_element` (outer read + inner write / DashSet insert)
  | publish (t : Nat)    -- as-is: `*self.0.write() = TieredStorage::Large(large_set)`
  | upgrade (t : Nat)    -- repaired: the critical section under the outer write lock
  | rem (t x : Nat)      -- `remove_element`
  | len (t : Nat)        -- `len`
  | iterBegin (t : Nat)  -- `iter`: guards taken; the elements are read under them
  | iterEnd (t : Nat)    -- the iterator is dropped
deriving DecidableEq, Repr, Inhabited

def State.setPc (s : State) (t : Nat) (p : TPc) : State :=
  { s with pc := fun j => if j = t then p else s.pc j }

def State.complete (s : State) (t : Nat) (op : Op) (r : Ret) : State :=
  { s with hist := s.hist ++ [(t, op, r)] }

/-- `DashSet::insert` / the `contains`+`push` of the small vector -/
def insertInto (l : List Nat) (x : Nat) : List Nat × Bool :=
  if x ∈ l then (l, false) else (l ++ [x], true)

/-- The transition function; the second component is the value returned to the caller when the
event completes an operation. -/
def step (s : State) : Ev → Option (State × Option Ret)
  | .ins t x =>
    if s.pc t = .idle then
      match s.store with
      | .small vec =>
        -- the inner write lock is free only while nobody iterates
        if s.readers = 0 then
          if vec.length = s.T then
            if s.fixed then some (s.setPc t (.upgrade x), none)
            else
              -- as-is: drain into the local set, insert, drop both locks
              let (loc, r) := insertInto vec x
              some ({ (s.setPc t (.publish loc x r)) with store := .small [] }, none)
          else
            let (v, r) := insertInto vec x
            some (({ s with store := .small v }).complete t (.ins x) (.bool r), some (.bool r))
        else none
      | .large set =>
        let (l, r) := insertInto set x
        some (({ s with store := .large l }).complete t (.ins x) (.bool r), some (.bool r))
    else none
  | .publish t =>
    match s.pc t with
    | .publish loc x r =>
      if s.readers = 0 then
        some ((({ s with store := .large loc }).setPc t .idle).complete t (.ins x) (.bool r), some (.bool r))
      else none
    | _ => none
  | .upgrade t =>
    match s.pc t with
    | .upgrade x =>
      if s.readers = 0 then
        match s.store with
        | .large set =>
          let (l, r) := insertInto set x
          some ((({ s with store := .large l }).setPc t .idle).complete t (.ins x) (.bool r), some (.bool r))
        | .small vec =>
          let (v, r) := insertInto vec x
          let st := if vec.length < s.T ∨ r = false then Store.small v else Store.large v
          some ((({ s with store := st }).setPc t .idle).complete t (.ins x) (.bool r), some (.bool r))
      else none
    | _ => none
  | .rem t x =>
    if s.pc t = .idle then
      match s.store with
      | .small vec =>
        if s.readers = 0 then
          let r := decide (x ∈ vec)
          some (({ s with store := .small (vec.erase x) }).complete t (.rem x) (.bool r), some (.bool r))
        else none
      | .large set =>
        let r := decide (x ∈ set)
        some (({ s with store := .large (set.erase x) }).complete t (.rem x) (.bool r), some (.bool r))
    else none
  | .len t =>
    if s.pc t = .idle then
      some (s.complete t .len (.nat s.store.content.length), some (.nat s.store.content.length))
    else none
  | .iterBegin t =>
    if s.pc t = .idle then
      some (({ (s.setPc t .iter) with readers := s.readers + 1 }).complete t .iter (.list s.store.content),
            some (.list s.store.content))
    else none
  | .iterEnd t =>
    if s.pc t = .iter then some ({ (s.setPc t .idle) with readers := s.readers - 1 }, none) else none

def init (T : Nat) (fixed : Bool) : State :=
  { T := T, fixed := fixed, store := .small [], pc := fun _ => .idle, readers := 0, hist := [] }

inductive Reachable (T : Nat) (fixed : Bool) : State → Prop
  | init : Reachable T fixed (init T fixed)
  | step {s s' : State} {o : Option Ret} (ev : Ev) : Reachable T fixed s → step s ev = some (s', o) → Reachable T fixed s'

/-- fire a schedule, collecting the returned values; `none` if some event was not enabled -/
def run (s : State) : List Ev → Option (State × List (Option Ret))
  | [] => some (s, [])
  | ev :: rest =>
    match step s ev with
    | none => none
    | some (s', o) =>
      match run s' rest with
      | none => none
      | some (s'', os) => some (s'', o :: os)

/-- The sequential specification of a set, one operation: `specOk c op r c'`. -/
def specOk (c : List Nat) : Op → Ret → List Nat → Prop
  | .ins x, .bool b, c' => b = decide (x ∉ c) ∧ ∀ y, y ∈ c' ↔ (y = x ∨ y ∈ c)
  | .rem x, .bool b, c' => b = decide (x ∈ c) ∧ ∀ y, y ∈ c' ↔ (y ≠ x ∧ y ∈ c)
  | .len, .nat n, c' => n = c.length ∧ c' = c
  | .iter, .list l, c' => l = c ∧ c' = c
  | _, _, _ => False

/-- `Legal c₀ h c`: `h` is a legal sequential history of a set (duplicate-free list) taking the
content `c₀` to `c`. -/
inductive Legal : List Nat → List (Nat × Op × Ret) → List Nat → Prop
  | nil (c : List Nat) : Legal c [] c
  | snoc {c0 c c' : List Nat} {h : List (Nat × Op × Ret)} (t : Nat) (op : Op) (r : Ret) :
      Legal c0 h c → c.Nodup → specOk c op r c' → c'.Nodup → Legal c0 (h ++ [(t, op, r)]) c'

end TS

/-! ## 3. LockTable -/

namespace LT

/-- What one task does with the lock of a query: `acquire_shared_lock` / `acquire_exclusive_lock`
= `get_lock_instance` (a `hot.get`, and on a miss an allocation and one `hot.entry`), then the
returned `Arc` (and the owned guard made from a clone of it) is kept across the `.await` until the
guard is dropped. -/
inductive LPc
  | idle
  | missed (k fresh : Nat)       -- `hot.get` returned `None`; a new `Arc<RwLock<()>>` was allocated
  | holding (k inst : Nat)       -- waits for or holds the lock of `k` through instance `inst`
deriving DecidableEq, Repr, Inhabited

structure State where
  /-- the cache `hot`: key ↦ lock instance -/
  table : Nat → Option Nat
  next : Nat
  pc : Nat → LPc
  nTasks : Nat

/-- no task below `nTasks` references instance `inst` of key `k` (`Arc::strong_count == 1`) -/
def State.unreferenced (s : State) (k inst : Nat) : Bool :=
  (List.range s.nTasks).all fun t => !(s.pc t == .holding k inst)

inductive Ev
  | getHit (t k : Nat)     -- `hot.get` hit: the stored `Arc` is cloned inside the cache's read
  | getMiss (t k : Nat)
  | entry (t : Nat)        -- `hot.entry`: Vacant → insert the fresh instance; Occupied → clone the stored one
  | release (t : Nat)      -- the guard and the `OwnedLock` are dropped
  | evict (k : Nat)        -- the cache evicts an entry: only if `is_pinned` is false, i.e. strong count 1
deriving DecidableEq, Repr, Inhabited

def State.setPc (s : State) (t : Nat) (p : LPc) : State :=
  { s with pc := fun j => if j = t then p else s.pc j }

def step (s : State) : Ev → Option State
  | .getHit t k =>
    if t < s.nTasks ∧ s.pc t = .idle then
      match s.table k with
      | some inst => some (s.setPc t (.holding k inst))
      | none => none
    else none
  | .getMiss t k =>
    if t < s.nTasks ∧ s.pc t = .idle ∧ s.table k = none then
      some { (s.setPc t (.missed k s.next)) with next := s.next + 1 }
    else none
  | .entry t =>
    if t < s.nTasks then
      match s.pc t with
      | .missed k f =>
        match s.table k with
        | none => some { (s.setPc t (.holding k f)) with table := fun j => if j = k then some f else s.table j }
        | some w => some (s.setPc t (.holding k w))
      | _ => none
    else none
  | .release t =>
    if t < s.nTasks then
      match s.pc t with
      | .holding _ _ => some (s.setPc t .idle)
      | _ => none
    else none
  | .evict k =>
    match s.table k with
    | some inst =>
      if s.unreferenced k inst = true then some { s with table := fun j => if j = k then none else s.table j }
      else none
    | none => none

def init (nTasks : Nat) : State :=
  { table := fun _ => none, next := 0, pc := fun _ => .idle, nTasks := nTasks }

inductive Reachable (nTasks : Nat) : State → Prop
  | init : Reachable nTasks (init nTasks)
  | step {s s' : State} (ev : Ev) : Reachable nTasks s → step s ev = some s' → Reachable nTasks s'

end LT

end QbiceVerif.Lts
