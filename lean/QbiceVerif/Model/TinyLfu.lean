/-
Executable model of `crates/storage/src/tiny_lfu.rs` + `tiny_lfu/{policy,lru,sketch,read_buffer,
write_buffer}.rs` for piggy-backed maintenance driven from ONE thread (property C16).

Representation choices (everything else mirrors the code function by function):
* keys and values are `Nat` (the harness uses `u64` keys and values);
* each LRU region is a `List Nat`, OLDEST FIRST: the list head is the region's tail pointer
  (`peek_least_recent` = `head?`, `pop_least_recent` = `tail`, `push_head` = `· ++ [k]`);
  the `HashMap<K,(ptr,Region)>` of `lru.rs` is the function `Lru.regionOf`;
* the storage (`scc::HashMap`) is an association list;
* the lifecycle listener is the multiset `pins` of *pin tokens* together with `Cfg.tok`:
  `is_pinned(k, v) = tok k v ∈ pins` (`tok k v = k` for the generic harness listener,
  `tok k v = v` for the lock table, whose values are lock instances pinned by reference count);
* the frequency sketch is a parameter (`Cfg.record`, `Cfg.estimate`, `Cfg.hash`), so every theorem
  holds for any sketch; `Sketch` below is the exact one of `sketch.rs`, used by the driver;
* every `unwrap()` / `assert!` of `policy.rs` and of the `lru.rs` entry points is a `Panic` outcome;
* the read buffer is the single shard the calling thread is striped to (capacity 16, overflow
  dropped), the write buffer an unbounded FIFO; maintenance runs when either holds more than
  `MAINTENANCE_BATCH_SIZE = 32` messages (`try_lock` always succeeds on one thread).
Imports nothing outside core.
-/
namespace QbiceVerif.TinyLfu

/-- The panic sites of `policy.rs` / `lru.rs` that the model keeps as explicit outcomes. -/
inductive Panic
  | duelWindowEmpty      -- policy.rs on_write : `peek_least_recent(Window).unwrap()`
  | duelProbationEmpty   -- policy.rs on_write : `peek_least_recent(Probation).unwrap()`
  | unpinProbationEmpty  -- policy.rs unpin    : `peek_least_recent(Probation).unwrap()`   (F4)
  | newEntryExists       -- lru.rs new_entry   : `assert!(map.insert(..).is_none())`
  | moveKeyMissing       -- lru.rs move_key_to_head_of_region : `map.get_mut(key).unwrap()`
  | moveKeySameRegion    -- lru.rs move_key_to_head_of_region : `assert!(*region != new_region)`
  deriving DecidableEq, Repr

def Panic.name : Panic → String
  | .duelWindowEmpty => "duel-window-empty"
  | .duelProbationEmpty => "duel-probation-empty"
  | .unpinProbationEmpty => "unpin-probation-empty"
  | .newEntryExists => "new-entry-exists"
  | .moveKeyMissing => "move-key-missing"
  | .moveKeySameRegion => "move-key-same-region"

/-- `policy.rs` `WriteMessage`. -/
inductive WMsg
  | insert (k : Nat)
  | removed (k : Nat)
  | unpinned (k : Nat)
  deriving DecidableEq, Repr

inductive Region | window | probation | prot | pinned
  deriving DecidableEq, Repr

/-- `lru.rs` `Lru`: four regions, each oldest first. -/
structure Lru where
  window : List Nat := []
  probation : List Nat := []
  prot : List Nat := []
  pinned : List Nat := []
  deriving Repr, DecidableEq

/-- The `map` of `lru.rs`: the region a key is recorded in. -/
def Lru.regionOf (l : Lru) (k : Nat) : Option Region :=
  if l.window.contains k then some .window
  else if l.probation.contains k then some .probation
  else if l.prot.contains k then some .prot
  else if l.pinned.contains k then some .pinned
  else none

/-- `Lru::hit`. -/
def Lru.hit (l : Lru) (k : Nat) (protectedCap : Nat) : Lru × Bool :=
  match l.regionOf k with
  | some .window => ({ l with window := l.window.erase k ++ [k] }, true)
  | some .probation =>
    -- unlink, push_head(Protected); if protected is over capacity its tail goes to the head of probation
    if l.prot.length + 1 > protectedCap then
      match l.prot with
      | [] => ({ l with probation := l.probation.erase k ++ [k] }, true)  -- the tail is `k` itself
      | o :: rest => ({ l with probation := l.probation.erase k ++ [o], prot := rest ++ [k] }, true)
    else ({ l with probation := l.probation.erase k, prot := l.prot ++ [k] }, true)
  | some .prot => ({ l with prot := l.prot.erase k ++ [k] }, true)
  | some .pinned => (l, true)
  | none => (l, false)

/-- `Lru::remove`. -/
def Lru.remove (l : Lru) (k : Nat) : Lru :=
  match l.regionOf k with
  | some .window => { l with window := l.window.erase k }
  | some .probation => { l with probation := l.probation.erase k }
  | some .prot => { l with prot := l.prot.erase k }
  | some .pinned => { l with pinned := l.pinned.erase k }
  | none => l

/-- `Lru::move_key_to_head_of_region(key, Region::Probation)` (its only use). -/
def Lru.moveKeyToProbation (l : Lru) (k : Nat) : Except Panic Lru :=
  match l.regionOf k with
  | none => .error .moveKeyMissing
  | some .probation => .error .moveKeySameRegion
  | some .window => .ok { l with window := l.window.erase k, probation := l.probation ++ [k] }
  | some .prot => .ok { l with prot := l.prot.erase k, probation := l.probation ++ [k] }
  | some .pinned => .ok { l with pinned := l.pinned.erase k, probation := l.probation ++ [k] }

/-! ### storage -/

abbrev Storage := List (Nat × Nat)

def sGet : Storage → Nat → Option Nat
  | [], _ => none
  | (j, v) :: r, k => if j = k then some v else sGet r k

def sDel : Storage → Nat → Storage
  | [], _ => []
  | (j, v) :: r, k => if j = k then sDel r k else (j, v) :: sDel r k

def sSet : Storage → Nat → Nat → Storage
  | [], _, _ => []
  | (j, v) :: r, k, w => if j = k then (j, w) :: sSet r k w else (j, v) :: sSet r k w

/-! ### configuration -/

/-- Everything fixed at construction time, plus the abstract sketch and listener. -/
structure Cfg (σ : Type) where
  windowCap : Nat
  protectedCap : Nat
  /-- `max_capacity - window_capacity` -/
  mainLimit : Nat
  /-- `UnpinStrategy::Poll` (otherwise `Notify`) -/
  poll : Bool
  /-- repaired `Policy::unpin` (finding F4, fixed in /repo); `false` = the code before the fix -/
  fixF4 : Bool
  /-- the Poll trim visits the whole pinned region once per maintenance round (the code since the fix of finding
  F15, fixes/F15-poll-trim-scan.diff); `false` = the code before the fix (the loop stops at the first still-pinned
  entry) -/
  fixTrim : Bool := true
  /-- `MAINTENANCE_BATCH_SIZE` -/
  batch : Nat
  /-- capacity of the read-buffer shard of the calling thread -/
  rbufCap : Nat
  record : σ → Nat → σ
  estimate : σ → Nat → Nat
  hash : Nat → Nat
  tok : Nat → Nat → Nat

/-- What maintenance reads and writes. `log` collects the `is_pinned` questions the removal
closure asks: `(key, answer)`; an entry `(k, false)` is an eviction of `k`. -/
structure Core (σ : Type) where
  lru : Lru := {}
  sk : σ
  st : Storage := []
  log : List (Nat × Bool) := []

structure Cache (σ : Type) where
  core : Core σ
  wbuf : List WMsg := []
  rbuf : List Nat := []
  pins : List Nat := []
  /-- GHOST (read by no operation): the tokens released since the last maintenance round -/
  rel : List Nat := []

/-- `remove_closure` of `tiny_lfu.rs`. -/
def removeClosure {σ} (cfg : Cfg σ) (pins : List Nat) (c : Core σ) (k : Nat) : Core σ × Bool :=
  match sGet c.st k with
  | some v =>
    if pins.contains (cfg.tok k v) then ({ c with log := c.log ++ [(k, true)] }, false)
    else ({ c with st := sDel c.st k, log := c.log ++ [(k, false)] }, true)
  | none => (c, true)

/-- `Policy::on_read_hit`. -/
def onReadHit {σ} (cfg : Cfg σ) (c : Core σ) (k : Nat) : Core σ × Bool :=
  ({ c with sk := cfg.record c.sk (cfg.hash k), lru := (c.lru.hit k cfg.protectedCap).1 },
    (c.lru.hit k cfg.protectedCap).2)

/-- The recurring shape `if remove(x) { pop x } else { move x to the pinned region }`; `rest` is the
LRU with `x` already taken out of its region. -/
def evictOrPin {σ} (cfg : Cfg σ) (pins : List Nat) (c : Core σ) (x : Nat) (rest : Lru) : Core σ :=
  let r := removeClosure cfg pins c x
  if r.2 then { r.1 with lru := rest } else { r.1 with lru := { rest with pinned := rest.pinned ++ [x] } }

/-- `Policy::on_write`, "The DUEL: LRU probation vs LRU window": `cand :: w` is the window, `vict :: p`
the probation region. -/
def duel {σ} (cfg : Cfg σ) (pins : List Nat) (c : Core σ) (cand : Nat) (w : List Nat) (vict : Nat) (p : List Nat) : Core σ :=
  if cfg.estimate c.sk (cfg.hash cand) > cfg.estimate c.sk (cfg.hash vict) then
    -- the candidate wins: the victim goes, the candidate is promoted to probation
    let c := evictOrPin cfg pins c vict { c.lru with probation := p }
    { c with lru := { c.lru with window := w, probation := c.lru.probation ++ [cand] } }
  else
    evictOrPin cfg pins c cand { c.lru with window := w }

/-- `Policy::on_write` after `new_entry(key, Window)`. -/
def afterNewEntry {σ} (cfg : Cfg σ) (pins : List Nat) (c : Core σ) : Except Panic (Core σ) :=
  if c.lru.window.length ≤ cfg.windowCap then .ok c
  else if c.lru.probation.length + c.lru.prot.length < cfg.mainLimit then
    match c.lru.window with
    | [] => .ok c
    | o :: w => .ok { c with lru := { c.lru with window := w, probation := c.lru.probation ++ [o] } }
  else
    match c.lru.window with
    | [] => .error .duelWindowEmpty
    | cand :: w =>
      match c.lru.probation with
      | [] => .error .duelProbationEmpty
      | vict :: p => .ok (duel cfg pins c cand w vict p)

/-- `Policy::on_write`. -/
def onWrite {σ} (cfg : Cfg σ) (pins : List Nat) (c : Core σ) (k : Nat) : Except Panic (Core σ) :=
  if (onReadHit cfg c k).2 then .ok (onReadHit cfg c k).1
  else if ((onReadHit cfg c k).1.lru.regionOf k).isSome then .error .newEntryExists
  else
    afterNewEntry cfg pins { (onReadHit cfg c k).1 with
      lru := { (onReadHit cfg c k).1.lru with window := (onReadHit cfg c k).1.lru.window ++ [k] } }

/-- `Policy::unpin`. -/
def unpin {σ} (cfg : Cfg σ) (pins : List Nat) (c : Core σ) (k : Nat) : Except Panic (Core σ) :=
  if c.lru.regionOf k ≠ some .pinned then .ok c
  else
    match c.lru.probation with
    | [] =>
      if cfg.fixF4 then
        match c.lru.moveKeyToProbation k with
        | .ok lru => .ok { c with lru := lru }
        | .error e => .error e
      else .error .unpinProbationEmpty
    | vict :: p =>
      if cfg.estimate c.sk (cfg.hash k) > cfg.estimate c.sk (cfg.hash vict) then
        let c := evictOrPin cfg pins c vict { c.lru with probation := p }
        match c.lru.moveKeyToProbation k with
        | .ok lru => .ok { c with lru := lru }
        | .error e => .error e
      else
        let r := removeClosure cfg pins c k
        if r.2 then .ok { r.1 with lru := r.1.lru.remove k } else .ok r.1

/-- HISTORICAL (`Cfg.fixTrim = false`, the code before the fix of finding F15): the loop of
`Policy::attempt_to_trim_overflowing_pinned` over the pinned region (oldest first) that stops at the first
still-pinned entry; returns the new pinned region. -/
def trimLoop {σ} (cfg : Cfg σ) (pins : List Nat) : List Nat → Core σ → List Nat × Core σ
  | [], c => ([], c)
  | k :: rest, c =>
    let r := removeClosure cfg pins c k
    if r.2 then trimLoop cfg pins rest r.1 else (rest ++ [k], r.1)

/-- `Policy::attempt_to_trim_overflowing_pinned` (since the fix of finding F15, `for _ in 0..pinned_len()`):
every entry of the pinned region is visited once; removed ones are popped, kept ones rotate to the head (so
they keep their order). -/
def trimScan {σ} (cfg : Cfg σ) (pins : List Nat) : List Nat → Core σ → List Nat × Core σ
  | [], c => ([], c)
  | k :: rest, c =>
    let r := removeClosure cfg pins c k
    if r.2 then trimScan cfg pins rest r.1
    else ((k :: (trimScan cfg pins rest r.1).1), (trimScan cfg pins rest r.1).2)

def trim {σ} (cfg : Cfg σ) (pins : List Nat) (c : Core σ) : Core σ :=
  let r := if cfg.fixTrim then trimScan cfg pins c.lru.pinned c else trimLoop cfg pins c.lru.pinned c
  { r.2 with lru := { r.2.lru with pinned := r.1 } }

/-- `TinyLFUInner::process_write`. -/
def processWrite {σ} (cfg : Cfg σ) (pins : List Nat) (c : Core σ) : WMsg → Except Panic (Core σ)
  | .insert k => onWrite cfg pins c k
  | .unpinned k => unpin cfg pins c k
  | .removed k => .ok { c with lru := c.lru.remove k }

def processWrites {σ} (cfg : Cfg σ) (pins : List Nat) : List WMsg → Core σ → Except Panic (Core σ)
  | [], c => .ok c
  | m :: ms, c =>
    match processWrite cfg pins c m with
    | .ok c => processWrites cfg pins ms c
    | .error e => .error e

def processReads {σ} (cfg : Cfg σ) : List Nat → Core σ → Core σ
  | [], c => c
  | k :: ks, c => processReads cfg ks (onReadHit cfg c k).1

/-- `TinyLFUInner::process_policy_message`. -/
def processPolicyMessages {σ} (cfg : Cfg σ) (c : Cache σ) : Except Panic (Cache σ) :=
  match processWrites cfg c.pins c.wbuf c.core with
  | .error e => .error e
  | .ok core =>
    let core := processReads cfg c.rbuf core
    let core := if cfg.poll then trim cfg c.pins core else core
    .ok { c with core := core, wbuf := [], rbuf := [], rel := [] }

/-- The tail of `TinyLFU::try_maintenance` (after the message has been buffered). -/
def tryMaintenance {σ} (cfg : Cfg σ) (c : Cache σ) : Except Panic (Cache σ) :=
  if c.wbuf.length ≤ cfg.batch && c.rbuf.length ≤ cfg.batch then .ok c
  else processPolicyMessages cfg c

/-! ### the public API as operations -/

inductive Op
  /-- `TinyLFU::get` -/
  | get (k : Nat)
  /-- `entry(k)`: `Vacant → insert(v)`, `Occupied → *get_mut() = v` -/
  | put (k v : Nat)
  /-- `entry(k)`: `Vacant → insert(v)`, `Occupied →` nothing -/
  | ins (k v : Nat)
  /-- `entry(k)`: `Occupied → *get_mut() = v`, `Vacant →` nothing -/
  | upd (k v : Nat)
  /-- `entry(k)`: `Occupied → remove()` -/
  | rem (k : Nat)
  /-- `entry(k)`: `Occupied → get()` (no read-buffer message) -/
  | peek (k : Nat)
  /-- the listener starts answering `true` for token `t` (one more reference) -/
  | pin (t : Nat)
  /-- the listener drops one reference of token `t`; the cache is not told -/
  | unpin (t : Nat)
  /-- the listener drops one reference of token `k` and the client calls `TinyLFU::unpin(k)` -/
  | unpinNotify (k : Nat)
  /-- `TinyLFU::unpin(k)` alone -/
  | notify (k : Nat)
  deriving DecidableEq, Repr

/-- What an operation returns to its caller. -/
inductive Ret
  | none
  | some (v : Nat)
  | inserted
  | updated
  | occupied (v : Nat)
  | absent
  | removed (v : Nat)
  | unit
  deriving DecidableEq, Repr

/-- The first half of a call of the public API: the storage access under the entry lock and the
message it buffers.  Returns the cache, the call's result, and whether the call goes on to
`try_maintenance` (the listener-side operations `pin` / `unpin` do not touch the cache). -/
def access {σ} (cfg : Cfg σ) (c : Cache σ) : Op → Cache σ × Ret × Bool
  | .get k =>
    ((if c.rbuf.length < cfg.rbufCap then { c with rbuf := c.rbuf ++ [k] } else c),
      (match sGet c.core.st k with | some v => Ret.some v | none => Ret.none), true)
  | .put k v =>
    match sGet c.core.st k with
    | some _ => ({ c with core := { c.core with st := sSet c.core.st k v } }, .updated, true)
    | none => ({ c with core := { c.core with st := (k, v) :: c.core.st }, wbuf := c.wbuf ++ [.insert k] }, .inserted, true)
  | .ins k v =>
    match sGet c.core.st k with
    | some w => (c, .occupied w, true)
    | none => ({ c with core := { c.core with st := (k, v) :: c.core.st }, wbuf := c.wbuf ++ [.insert k] }, .inserted, true)
  | .upd k v =>
    match sGet c.core.st k with
    | some _ => ({ c with core := { c.core with st := sSet c.core.st k v } }, .updated, true)
    | none => (c, .absent, true)
  | .rem k =>
    match sGet c.core.st k with
    | some w => ({ c with core := { c.core with st := sDel c.core.st k }, wbuf := c.wbuf ++ [.removed k] }, .removed w, true)
    | none => (c, .absent, true)
  | .peek k =>
    match sGet c.core.st k with
    | some w => (c, .some w, true)
    | none => (c, .none, true)
  | .pin t => ({ c with pins := t :: c.pins }, .unit, false)
  | .unpin t => ({ c with pins := c.pins.erase t, rel := t :: c.rel }, .unit, false)
  | .unpinNotify k => ({ c with pins := c.pins.erase k, rel := k :: c.rel, wbuf := c.wbuf ++ [.unpinned k] }, .unit, true)
  | .notify k => ({ c with wbuf := c.wbuf ++ [.unpinned k] }, .unit, true)

/-- the cache with an empty removal-closure log (the log is per call) -/
def Cache.clearLog {σ} (c : Cache σ) : Cache σ := { c with core := { c.core with log := [] } }

/-- One call of the public API: the storage access, the buffered message, `try_maintenance`.
Returns the new cache, the call's result and the removal-closure log of this call. -/
def step {σ} (cfg : Cfg σ) (c : Cache σ) (op : Op) : Except Panic (Cache σ × Ret × List (Nat × Bool)) :=
  if (access cfg c.clearLog op).2.2 then
    match tryMaintenance cfg (access cfg c.clearLog op).1 with
    | .ok c' => .ok (c', (access cfg c.clearLog op).2.1, c'.core.log)
    | .error e => .error e
  else .ok ((access cfg c.clearLog op).1, (access cfg c.clearLog op).2.1, [])

/-- Runs a whole history; `.error` as soon as one call panics. -/
def run {σ} (cfg : Cfg σ) : Cache σ → List Op → Except Panic (Cache σ)
  | c, [] => .ok c
  | c, op :: ops =>
    match step cfg c op with
    | .ok (c, _, _) => run cfg c ops
    | .error e => .error e

def Cache.init {σ} (sk : σ) : Cache σ := { core := { sk := sk } }

/-! ### the lock table (`query_lock_manager.rs`) on top of the cache

Values are lock instances (`Arc<RwLock<()>>`, here: ids); `ActiveLockLifecycleListener::is_pinned`
is `strong_count > 1`, i.e. some reference besides the table's own is alive: `tok k v = v`, and every
live reference holds one occurrence of the id in `pins`. -/

structure LockTable (σ : Type) where
  cache : Cache σ
  /-- live references handed out: (query key, lock id) -/
  handles : List (Nat × Nat) := []
  /-- the next fresh lock id (`Arc::new`) -/
  next : Nat := 0

def LockTable.init {σ} (sk : σ) : LockTable σ := { cache := Cache.init sk }

/-- `QueryLockManager::get_lock_instance`. -/
def acquire {σ} (cfg : Cfg σ) (t : LockTable σ) (q : Nat) : Except Panic (LockTable σ × Nat) :=
  match sGet t.cache.core.st q with
  | some id =>
    -- fast path: `hot.get` clones the stored instance inside the read (one more reference), then
    -- runs its maintenance
    match step cfg { t.cache with pins := id :: t.cache.pins } (.get q) with
    | .error e => .error e
    | .ok (c, _, _) => .ok ({ t with cache := c, handles := (q, id) :: t.handles }, id)
  | none =>
    match step cfg t.cache (.get q) with
    | .error e => .error e
    | .ok (c, _, _) =>
      -- a fresh instance referenced by the caller; `entry(q)`: Vacant → insert a clone
      match step cfg { c with pins := t.next :: c.pins } (.ins q t.next) with
      | .error e => .error e
      | .ok (c, .occupied w, _) =>
        -- Occupied → clone the stored one, the fresh instance is dropped
        .ok ({ cache := { c with pins := w :: c.pins.erase t.next }, handles := (q, w) :: t.handles, next := t.next + 1 }, w)
      | .ok (c, _, _) => .ok ({ cache := c, handles := (q, t.next) :: t.handles, next := t.next + 1 }, t.next)

/-- dropping one reference `(q, id)` -/
def release {σ} (t : LockTable σ) (q id : Nat) : LockTable σ :=
  if (q, id) ∈ t.handles then
    { t with cache := { t.cache with pins := t.cache.pins.erase id }, handles := t.handles.erase (q, id) }
  else t

inductive LOp
  | acq (q : Nat)
  | rel (q id : Nat)
  deriving DecidableEq, Repr

def lrun {σ} (cfg : Cfg σ) : LockTable σ → List LOp → Except Panic (LockTable σ)
  | t, [] => .ok t
  | t, .acq q :: ops =>
    match acquire cfg t q with
    | .ok (t, _) => lrun cfg t ops
    | .error e => .error e
  | t, .rel q id :: ops => lrun cfg (release t q id) ops

/-! ### `Policy::new` -/

/-- `(window_capacity, protected_capacity, max_capacity - window_capacity)` of `Policy::new`.
`(c as f64 * 0.01).ceil()` and `(main as f64 * 0.8).ceil()` are the exact ceilings for every
`usize` below 2^52 (checked against IEEE arithmetic by the harness on every run). -/
def capsOf (capacity : Nat) : Nat × Nat × Nat :=
  let windowCap := (capacity + 99) / 100
  let main := capacity - windowCap
  let protectedCap := (4 * main + 4) / 5
  let probationCap := max (main - protectedCap) 1
  (windowCap, protectedCap, protectedCap + probationCap)

/-! ### the exact sketch of `sketch.rs` -/

def nextPow2Go : Nat → Nat → Nat → Nat
  | 0, _, p => p
  | fuel + 1, n, p => if p ≥ n then p else nextPow2Go fuel n (2 * p)

/-- `usize::next_power_of_two` (for `n ≥ 1`). -/
def nextPow2 (n : Nat) : Nat := nextPow2Go n n 1

structure Sketch where
  /-- bloom bitmap as one bit string -/
  bloom : Nat := 0
  bloomBits : Nat
  /-- the packed 4-bit counters: counter `g` occupies bits `4g .. 4g+3` -/
  table : Nat := 0
  width : Nat
  additions : Nat := 0
  threshold : Nat
  deriving Repr, DecidableEq

def Sketch.new (capacity : Nat) : Sketch :=
  { bloomBits := nextPow2 (max capacity 64), width := nextPow2 (max capacity 1), threshold := capacity }

def u64 (n : Nat) : Nat := n % 18446744073709551616

def rotl32 (h : Nat) : Nat := u64 (h <<< 32) ||| (h >>> 32)

def Sketch.counter (s : Sketch) (g : Nat) : Nat := (s.table >>> (4 * g)) % 16

/-- `CountMinSketch::increment`, rows `r .. 3`. -/
def cmsIncGo (width h2 : Nat) : Nat → Nat → Nat → Nat → Nat
  | 0, _, _, table => table
  | n + 1, r, h, table =>
    let g := r * width + h % width
    let table := if (table >>> (4 * g)) % 16 < 15 then table + (1 <<< (4 * g)) else table
    cmsIncGo width h2 n (r + 1) (u64 (h + h2)) table

/-- `CountMinSketch::estimate`, rows `r .. 3`. -/
def cmsEstGo (width h2 table : Nat) : Nat → Nat → Nat → Nat → Nat
  | 0, _, _, min => min
  | n + 1, r, h, min =>
    let g := r * width + h % width
    let count := (table >>> (4 * g)) % 16
    if count = 0 then 0
    else cmsEstGo width h2 table n (r + 1) (u64 (h + h2)) (if count < min then count else min)

/-- `0x7777…` over all `16 * width` bits of the table. -/
def mask7 (width : Nat) : Nat := (2 ^ (16 * width) - 1) / 15 * 7

/-- `Sketch::record_access`. -/
def Sketch.record (s : Sketch) (hash : Nat) : Sketch :=
  let bit := hash % s.bloomBits
  let s :=
    if s.bloom.testBit bit then { s with table := cmsIncGo s.width (rotl32 hash) 4 0 hash s.table }
    else { s with bloom := s.bloom ||| (1 <<< bit) }
  let additions := s.additions + 1
  if additions ≥ s.threshold then
    { s with bloom := 0, table := (s.table >>> 1) &&& mask7 s.width, additions := 0 }
  else { s with additions := additions }

/-- `Sketch::estimate_frequency`. -/
def Sketch.estimate (s : Sketch) (hash : Nat) : Nat :=
  let e := cmsEstGo s.width (rotl32 hash) s.table 4 0 hash 15
  if s.bloom.testBit (hash % s.bloomBits) then e + 1 else e

/-- `FxBuildHasher::hash_one(&k)` for a `u64` key. -/
def fxHash (k : Nat) : Nat := u64 (k * 0x517cc1b727220a95)

/-- The configuration `TinyLFU::new(capacity, strategy, Piggyback)` builds. -/
def Cfg.real (capacity : Nat) (poll fixF4 : Bool) (tok : Nat → Nat → Nat) : Cfg Sketch :=
  let (w, p, m) := capsOf capacity
  { windowCap := w, protectedCap := p, mainLimit := m, poll := poll, fixF4 := fixF4,
    batch := 32, rbufCap := 16, record := Sketch.record, estimate := Sketch.estimate,
    hash := fxHash, tok := tok }

def Cache.real (capacity : Nat) : Cache Sketch := Cache.init (Sketch.new (capacity * 16))

end QbiceVerif.TinyLfu
