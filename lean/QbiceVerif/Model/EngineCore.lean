/-
Core engine model: the fragment of the engine used by programs that consist of input, normal and
external-input queries with single (ordered) reads and unordered read groups — verification stamps
per epoch, repair in recorded dependency order with the clean-edge shortcut, fingerprint comparison
(early cut-off), re-execution with dynamic dependency sets, dirty propagation at commit, `refresh`
of the external inputs.  This is the model the C01/C03 theorems are proved about;
`Model/Engine.lean` is the full model (firewalls, projections, cycles).  Both are run against the
implementation by the correspondence check.

Representation chosen for provability: maps are functions, the static rank of a key is its index
(`WF`: an executor of key `k` only asks keys `< k`), recursion is by fuel with the recursive call
passed as a parameter (`repairDeps q`, `runProg q`).  Dirty propagation is modelled by its fixed
point (`affected`): an edge `(c, x)` is marked iff `x` is reachable from a changed input through
recorded backward edges — what the dirty worker's breadth-first traversal computes.

External-input queries: the executor of an external key reads no query, only the harness-controlled
`world` (constant between two sessions).  It runs on first demand, is never re-run by a query, and
`refresh` (a session write) re-runs the executor of every external key computed so far.

Unordered read groups (`Prog.askAll`): the members are queried one after the other; the recorded
dependencies stay one flat ordered list (the engine records `Unordered [..]` and, on repair, checks
the members concurrently and stops at the first difference; sequentially: in list order).
-/
import QbiceVerif.Model.Engine
namespace Qbice.Core

abbrev Key := Nat
abbrev Val := Int

inductive Kind | input | normal | external
  deriving DecidableEq, Repr

inductive Prog where
  | ret (v : Val)
  | ask (k : Key) (cont : Val → Prog)
  /-- unordered read group -/
  | askAll (ks : List Key) (cont : List Val → Prog)

structure NodeDef where
  kind : Kind
  /-- executor of a normal key -/
  prog : Prog
  /-- executor of an external key: a function of the world -/
  ext : (Key → Val) → Val := fun _ => 0

abbrev Program := List NodeDef

structure Node where
  kind : Kind
  lastVerified : Nat
  value : Val
  /-- recorded reads in order (first occurrence of each callee) with the observed value -/
  deps : List (Key × Val)

inductive Err | outOfFuel | badKey (k : Key) | inputNotSet (k : Key) | badOp
  deriving Repr, DecidableEq

structure St where
  epoch : Nat := 0
  nodes : Key → Option Node := fun _ => none
  dirty : Key → Key → Bool := fun _ _ => false
  /-- the harness-controlled cells read by external executors -/
  world : Key → Val := fun _ => 0
  log : List Key := []

def setNode (s : St) (k : Key) (n : Node) : St :=
  { s with nodes := fun x => if x = k then some n else s.nodes x }

def clearDirty (s : St) (c x : Key) : St :=
  { s with dirty := fun a b => if a = c ∧ b = x then false else s.dirty a b }

def clearDirtyFrom (s : St) (c : Key) : St :=
  { s with dirty := fun a b => if a = c then false else s.dirty a b }

abbrev Q := Key → St → Except Err (Val × St)

/-- `recompute_decision_based_on_forward_edges` over the recorded dependencies, in order:
    a clean edge is skipped (`NoNeed`), a dirty one has its callee repaired and compared. -/
def repairDeps (q : Q) (k : Key) : List (Key × Val) → St → Except Err (Bool × St)
  | [], s => .ok (false, s)
  | (d, o) :: rest, s =>
    if s.dirty k d = false then repairDeps q k rest s
    else
      match q d s with
      | .error e => .error e
      | .ok (v, s1) =>
        if v ≠ o then .ok (true, s1)
        else repairDeps q k rest (clearDirty s1 k d)

def recordDep (acc : List (Key × Val)) (d : Key) (v : Val) : List (Key × Val) :=
  if acc.any (fun e => e.1 == d) then acc else acc ++ [(d, v)]

def recordAll (acc : List (Key × Val)) : List (Key × Val) → List (Key × Val)
  | [] => acc
  | (d, v) :: rest => recordAll (recordDep acc d v) rest

/-- the members of an unordered group, queried one after the other -/
def askMany (q : Q) : List Key → St → Except Err (List (Key × Val) × St)
  | [], s => .ok ([], s)
  | d :: rest, s =>
    match q d s with
    | .error e => .error e
    | .ok (v, s1) =>
      match askMany q rest s1 with
      | .error e => .error e
      | .ok (kvs, s2) => .ok ((d, v) :: kvs, s2)

/-- running an executor: every `ask` is a query for the dependency -/
def runProg (q : Q) : Prog → List (Key × Val) → St → Except Err (Val × List (Key × Val) × St)
  | .ret v, acc, s => .ok (v, acc, s)
  | .ask d cont, acc, s =>
    match q d s with
    | .error e => .error e
    | .ok (v, s1) => runProg q (cont v) (recordDep acc d v) s1
  | .askAll ks cont, acc, s =>
    match askMany q ks s with
    | .error e => .error e
    | .ok (kvs, s1) => runProg q (cont (kvs.map (·.2))) (recordAll acc kvs) s1

/-- `set_computed`: the node is replaced, its dirty edges are gone, the invocation is logged -/
def install (s : St) (k : Key) (n : Node) : St :=
  let s3 := setNode (clearDirtyFrom s k) k n
  { s3 with log := s3.log ++ [k] }

def execute (q : Q) (k : Key) (prog : Prog) (s : St) : Except Err (Val × St) :=
  match runProg q prog [] s with
  | .error e => .error e
  | .ok (v, deps, s1) =>
    .ok (v, install s1 k { kind := .normal, lastVerified := s1.epoch, value := v, deps := deps })

/-- first demand of an external key: its executor reads the world -/
def executeExt (k : Key) (d : NodeDef) (s : St) : Val × St :=
  let v := d.ext s.world
  (v, install s k { kind := .external, lastVerified := s.epoch, value := v, deps := [] })

/-- `query_for` for this fragment. -/
def query (p : Program) : Nat → Q
  | 0, _, _ => .error .outOfFuel
  | fuel + 1, k, s =>
    match s.nodes k with
    | none =>
      match p[k]? with
      | none => .error (.badKey k)
      | some d =>
        match d.kind with
        | .input => .error (.inputNotSet k)
        | .external => .ok (executeExt k d s)
        | .normal => execute (query p fuel) k d.prog s
    | some n =>
      if n.lastVerified = s.epoch then .ok (n.value, s)
      else if n.kind ≠ .normal then .ok (n.value, setNode s k { n with lastVerified := s.epoch })
      else
        match p[k]? with
        | none => .error (.badKey k)
        | some d =>
          match repairDeps (query p fuel) k n.deps s with
          | .error e => .error e
          | .ok (true, s1) => execute (query p fuel) k d.prog s1
          | .ok (false, s1) => .ok (n.value, setNode s1 k { n with lastVerified := s1.epoch })

def fuelFor (p : Program) : Nat := p.length + 1

/-- reachability from the changed keys through recorded backward edges, as seen from the caller -/
def affected (s : St) (changed : List Key) : Nat → Key → Bool
  | 0, _ => false
  | f + 1, k =>
    changed.contains k ||
      (match s.nodes k with
       | some n => n.deps.any (fun d => affected s changed f d.1)
       | none => false)

inductive Write | set (k : Key) (v : Val) | refresh | world (k : Key) (v : Val)
  deriving Repr, DecidableEq

inductive SetRes | fresh | updated | unchanged | refreshed | world
  deriving Repr, DecidableEq

/-- the world writes of a session take effect before the session starts -/
def applyWorld : List Write → (Key → Val) → (Key → Val)
  | [], w => w
  | .world c v :: rest, w => applyWorld rest (fun x => if x = c then v else w x)
  | _ :: rest, w => applyWorld rest w

def isExtNode (s : St) (k : Key) : Bool :=
  match s.nodes k with
  | some n => decide (n.kind = .external)
  | none => false

/-- the node of `k` after a refresh: an external node gets the value its executor returns now -/
def refreshNode (p : Program) (s : St) (k : Key) : Option Node :=
  match s.nodes k, p[k]? with
  | some n, some d =>
    if n.kind = .external then
      some { n with lastVerified := s.epoch, value := d.ext s.world, deps := [] }
    else some n
  | o, _ => o

/-- the result of re-running the executor of the external key `k` differs from the stored one -/
def extChanged (p : Program) (s : St) (k : Key) : Bool :=
  match s.nodes k, p[k]? with
  | some n, some d => decide (n.kind = .external) && decide (n.value ≠ d.ext s.world)
  | _, _ => false

/-- `refresh`: the executor of every external key computed so far runs again (logged, in key
    order); a changed result is treated like an `Updated` input; the nodes stay external -/
def refreshAll (p : Program) (s : St) (ch : List Key) : St × List Key :=
  let exts := (List.range p.length).filter (isExtNode s)
  ({ s with nodes := refreshNode p s, log := s.log ++ exts }, ch ++ exts.filter (extChanged p s))

/-- the writes of one session: `set_input` per `set`, `refresh` -/
def applySets (p : Program) : List Write → St → List SetRes → List Key →
    Except Err (St × List SetRes × List Key)
  | [], s, rs, ch => .ok (s, rs, ch)
  | .set k v :: rest, s, rs, ch =>
    match p[k]? with
    | none => .error (.badKey k)
    | some d =>
      if d.kind ≠ .input then .error .badOp
      else
        let r := match s.nodes k with
          | none => SetRes.fresh
          | some n => if n.value ≠ v then .updated else .unchanged
        let s' := setNode s k { kind := .input, lastVerified := s.epoch, value := v, deps := [] }
        applySets p rest s' (rs ++ [r]) (if r = .updated then ch ++ [k] else ch)
  | .world _ _ :: rest, s, rs, ch => applySets p rest s (rs ++ [.world]) ch
  | .refresh :: rest, s, rs, ch =>
    let r := refreshAll p s ch
    applySets p rest r.1 (rs ++ [.refreshed]) r.2

/-- `input_session()` (epoch bump) · writes · `commit()` (dirty propagation) -/
def session (p : Program) (ws : List Write) (s : St) : Except Err (List SetRes × St) :=
  match applySets p ws { s with epoch := s.epoch + 1, world := applyWorld ws s.world } [] [] with
  | .error e => .error e
  | .ok (s1, rs, changed) =>
    let aff := affected s1 changed (p.length + 1)
    let hasEdge : Key → Key → Bool := fun c x =>
      match s1.nodes c with
      | some n => n.deps.any (fun e => e.1 == x)
      | none => false
    .ok (rs, { s1 with dirty := fun c x => s1.dirty c x || (hasEdge c x && aff x) })

/-- one tracked engine: keys in order through its local cache -/
def roundAux (p : Program) (fuel : Nat) : List Key → List (Key × Val) → List Val → St → Except Err (List Val × St)
  | [], _, out, s => .ok (out, s)
  | k :: rest, cache, out, s =>
    match cache.find? (fun e => e.1 == k) with
    | some e => roundAux p fuel rest cache (out ++ [e.2]) s
    | none =>
      match query p fuel k s with
      | .error e => .error e
      | .ok (v, s1) => roundAux p fuel rest (cache ++ [(k, v)]) (out ++ [v]) s1

def round (p : Program) (fuel : Nat) (ks : List Key) (s : St) : Except Err (List Val × St) :=
  roundAux p fuel ks [] [] s

-- ------------------------------------------------------------------ specification

/-- the values of all keys of a group, if all are defined -/
def allVals (rec : Key → Option Val) : List Key → Option (List Val)
  | [] => some []
  | d :: rest =>
    match rec d with
    | none => none
    | some v =>
      match allVals rec rest with
      | none => none
      | some vs => some (v :: vs)

/-- from-scratch evaluation of an executor given the values of lower keys -/
def evalProg (rec : Key → Option Val) : Prog → Option Val
  | .ret v => some v
  | .ask d cont => match rec d with
    | some v => evalProg rec (cont v)
    | none => none
  | .askAll ks cont => match allVals rec ks with
    | some vs => evalProg rec (cont vs)
    | none => none

/-- from-scratch value of key `k` on the committed inputs and the external values `ext` (the world
    as of the first demand / last refresh of each external key); fuel `k+1` suffices for `WF`
    programs -/
def evalSpec (p : Program) (inputs : Key → Option Val) (ext : Key → Option Val) : Nat → Key → Option Val
  | 0, _ => none
  | f + 1, k =>
    match p[k]? with
    | none => none
    | some d =>
      match d.kind with
      | .input => inputs k
      | .external => ext k
      | .normal => evalProg (evalSpec p inputs ext f) d.prog

/-- every key an executor can ask, whatever it reads, is below `bound` -/
def Prog.Below (bound : Nat) : Prog → Prop
  | .ret _ => True
  | .ask d cont => d < bound ∧ ∀ v, Prog.Below bound (cont v)
  | .askAll ks cont => (∀ d, d ∈ ks → d < bound) ∧ ∀ vs, Prog.Below bound (cont vs)

/-- static rank = index -/
def WF (p : Program) : Prop :=
  ∀ (k : Key) (d : NodeDef), p[k]? = some d → d.kind = .normal → d.prog.Below k

-- ------------------------------------------------------------------ bridge from the full model's programs

/-- Programs of the full model that lie in the core fragment (the driver checks the fragment). -/
def ofProg : Qbice.Engine.Prog → Prog
  | .ret v => .ret v
  | .ask k c => .ask k fun v => ofProg (c v)
  | .askAll ks c => .askAll ks fun vs => ofProg (c vs)
  | .world _ c => ofProg (c 0)         -- not in the fragment (normal executors read no world cell)

/-- the executor of an external key as a function of the world -/
def extFun : Qbice.Engine.Prog → (Key → Val) → Val
  | .ret v, _ => v
  | .world c cont, w => extFun (cont (w c)) w
  | .ask _ _, _ => 0                   -- not in the fragment (external executors read no query)
  | .askAll _ _, _ => 0                -- not in the fragment

def ofKind : Qbice.Engine.Kind → Kind
  | .input => .input
  | .external => .external
  | _ => .normal                        -- firewall / projection: not in the fragment

def ofProgram (p : Qbice.Engine.Program) : Program :=
  p.map fun d => { kind := ofKind d.kind, prog := ofProg d.prog, ext := extFun d.prog }

end Qbice.Core

/-
Extended core model (`Qbice.CoreFw`): ALL acyclic programs — the five kinds input, normal, external,
FIREWALL and PROJECTION — with the engine logic of the REPAIRED design (`Model/Engine.lean` with the
switches `f1p`, `f1q`, `f14`, `f1r` on; `f2`, `f16`, `f33` are on by default; cycles are out of scope:
rank = key index).  Same representation as above: maps are functions, recursion by fuel with the
recursive call as a parameter.  `Qbice.Core` above is the firewall-free instance of this model (it
stays as the model of C07 / C08 and of `C02_full_statement`).

New state: per node the transitive-firewall-callee set `tfc` (sorted list), per recorded callee the
`tfc` fingerprint seen at observation time (`seen`; the fingerprint is the set itself), and a pending
backward projection flag (`pendingBP`; with `f14` a flag without epoch).

Callers (`Caller`, as in `Model/Engine.lean`).  In an acyclic program the requests form four layers,
each defined by its own recursion on fuel with the layers below it as fixed functions:
* `queryQ` — a *query* caller (an executor reading, or `check_callee` repairing, a dependency): fast
  path, `repair_query` (`check_callee` with the trust rule `f1p`: a clean edge is skipped only if
  every firewall of the callee's recorded frontier is verified in this epoch without a pending
  backward projection; never skipped for pedantic callers and for projection callers), clean path
  (`clean_query`: when a cleaned callee's set differs from the fingerprint seen, the set is
  recomputed from all callees and — `f1q` — all fingerprints are refreshed), recompute
  (`execute_query`: a firewall / projection whose value changes propagates dirtiness upward, in the
  same epoch, and gets a pending backward projection).  Calls go to lower keys only.
* `queryB` — the `BackwardProjectionPropagation` caller: an unverified projection is repaired like
  for a pedantic query caller (since the F13 repair; before it: always re-executed); afterwards, if it has a pending backward projection, the projections
  directly above it are requested the same way (`backProject`).  Calls go to higher keys only.
* `queryF` — the `RepairFirewall` caller: `repair_transitive_firewall_callees` of the firewall
  (lower keys, same caller), then the repair proper as a non-pedantic query caller would do it,
  then the pending backward projection if any.
* `queryU` — the user: `repair_transitive_firewall_callees`, then the repair proper.
Hash-set walks (`tfc` sets, backward-projection sets) are in ascending key order.

Dirty propagation is declarative (`affected`): an edge `(c, x)` is marked iff `x` is reachable from a
changed key through recorded backward edges along a path whose nodes after the source are neither
firewalls nor projections — at commit from the changed inputs, and from a firewall / projection at
the moment its re-execution returns a different value.
-/
namespace Qbice.CoreFw
open Qbice.Core (Prog Err Write SetRes allVals evalProg applyWorld)

abbrev Key := Nat
abbrev Val := Int

inductive Kind | input | normal | external | firewall | projection
  deriving DecidableEq, Repr

structure NodeDef where
  kind : Kind
  /-- executor of a normal / firewall / projection key -/
  prog : Prog
  /-- executor of an external key: a function of the world -/
  ext : (Key → Val) → Val := fun _ => 0

abbrev Program := List NodeDef

structure Node where
  kind : Kind
  lastVerified : Nat
  value : Val
  /-- recorded reads in order (first occurrence of each callee) with the observed value -/
  deps : List (Key × Val)
  /-- the transitive-firewall-callee fingerprint (= the set) of each callee seen at observation -/
  seen : Key → List Key
  /-- transitive firewall callees: sorted, duplicate-free -/
  tfc : List Key
  /-- a backward projection is pending (`f14`: a flag, whatever the epoch) -/
  pendingBP : Bool

inductive Caller
  | user
  | query (k : Key) (requireValue : Bool) (pedantic : Bool)
  | bpp
  | repairFirewall
  deriving DecidableEq, Repr

structure St where
  epoch : Nat := 0
  nodes : Key → Option Node := fun _ => none
  dirty : Key → Key → Bool := fun _ _ => false
  world : Key → Val := fun _ => 0
  log : List Key := []

def setNode (s : St) (k : Key) (n : Node) : St :=
  { s with nodes := fun x => if x = k then some n else s.nodes x }

def clearDirty (s : St) (c x : Key) : St :=
  { s with dirty := fun a b => if a = c ∧ b = x then false else s.dirty a b }

def clearDirtyFrom (s : St) (c : Key) : St :=
  { s with dirty := fun a b => if a = c then false else s.dirty a b }

abbrev Q := Key → St → Except Err (Val × St)

def isFwPj (k : Kind) : Bool := k = .firewall || k = .projection

/-- what a callee of kind `kind` with set `t` contributes to its caller's set
    (`observe_callee_fingerprint`) -/
def contrib (kind : Kind) (d : Key) (t : List Key) : List Key :=
  match kind with
  | .input | .external => []
  | .firewall => [d]
  | .normal | .projection => t

def tfcOf (s : St) (d : Key) : List Key :=
  match s.nodes d with
  | some n => n.tfc
  | none => []

/-- the recorded firewall frontier of a callee, as the trust rule sees it -/
def front (s : St) (d : Key) : List Key :=
  match s.nodes d with
  | some n => contrib n.kind d n.tfc
  | none => []

/-- verified in this epoch, no pending backward projection -/
def settledFw (s : St) (f : Key) : Bool :=
  match s.nodes f with
  | some n => decide (n.lastVerified = s.epoch) && !n.pendingBP
  | none => false

/-- the trust rule (`f1p`) -/
def trusted (s : St) (d : Key) : Bool := (front s d).all (settledFw s)

def hasPending (s : St) (k : Key) : Bool :=
  match s.nodes k with
  | some n => n.pendingBP
  | none => false

/-- the callee's set differs from the fingerprint seen (never for a firewall callee) -/
def tfcMoved (s : St) (seen : Key → List Key) (d : Key) : Bool :=
  match s.nodes d with
  | some n => decide (n.kind ≠ .firewall) && decide (n.tfc ≠ seen d)
  | none => false

/-- `recompute_decision_based_on_forward_edges` / `check_callee` over the recorded dependencies, in
    order.  `skipOk` = the caller is not pedantic and the node is not a projection.  Returns
    (recompute, a cleaned callee's set moved, the callees whose edge leaves the dirty set, state).
    The state changes only through the requests for the callees: the cleaned edges leave the dirty
    set when the node is published (`clean_query`). -/
def repairDeps (q : Q) (k : Key) (skipOk : Bool) (seen : Key → List Key) :
    List (Key × Val) → Bool → List Key → St → Except Err (Bool × Bool × List Key × St)
  | [], nt, cl, s => .ok (false, nt, cl, s)
  | (d, o) :: rest, nt, cl, s =>
    if s.dirty k d = false ∧ skipOk = true ∧ trusted s d = true then repairDeps q k skipOk seen rest nt cl s
    else
      match q d s with
      | .error e => .error e
      | .ok (v, s1) =>
        if v ≠ o then .ok (true, nt, cl, s1)
        else
          -- the edge leaves the dirty set only if it was dirty when the check began
          repairDeps q k skipOk seen rest (nt || tfcMoved s1 seen d)
            (if s.dirty k d = true then d :: cl else cl) s1

def clearDirtyList (s : St) (c : Key) (xs : List Key) : St :=
  { s with dirty := fun a b => if a = c ∧ b ∈ xs then false else s.dirty a b }

/-- `clean_query`: the set recomputed from all recorded callees -/
def recomputeTfc (s : St) : List (Key × Val) → List Key
  | [] => []
  | (d, _) :: rest => Qbice.Engine.unionSorted (front s d) (recomputeTfc s rest)

/-- what an executor has registered so far: reads, fingerprints seen, accumulated set -/
structure Acc where
  deps : List (Key × Val) := []
  seen : Key → List Key := fun _ => []
  tfc : List Key := []

/-- `register_callee` + `observe_callee_fingerprint` after the callee `d` returned `v` in state `s` -/
def observe (s : St) (a : Acc) (d : Key) (v : Val) : Acc :=
  { deps := if a.deps.any (fun e => e.1 == d) then a.deps else a.deps ++ [(d, v)],
    seen := fun x => if x = d then tfcOf s d else a.seen x,
    tfc := Qbice.Engine.unionSorted (front s d) a.tfc }

/-- the members of an unordered group, queried one after the other -/
def askMany (q : Q) : List Key → Acc → St → Except Err (List Val × Acc × St)
  | [], a, s => .ok ([], a, s)
  | d :: rest, a, s =>
    match q d s with
    | .error e => .error e
    | .ok (v, s1) =>
      match askMany q rest (observe s1 a d v) s1 with
      | .error e => .error e
      | .ok (vs, a2, s2) => .ok (v :: vs, a2, s2)

/-- running an executor: every `ask` is a query for the dependency -/
def runProg (q : Q) : Prog → Acc → St → Except Err (Val × Acc × St)
  | .ret v, a, s => .ok (v, a, s)
  | .ask d cont, a, s =>
    match q d s with
    | .error e => .error e
    | .ok (v, s1) => runProg q (cont v) (observe s1 a d v) s1
  | .askAll ks cont, a, s =>
    match askMany q ks a s with
    | .error e => .error e
    | .ok (vs, a1, s1) => runProg q (cont vs) a1 s1

/-- `set_computed`: the node is replaced, its dirty edges are gone, the invocation is logged -/
def install (s : St) (k : Key) (n : Node) : St :=
  let s3 := setNode (clearDirtyFrom s k) k n
  { s3 with log := s3.log ++ [k] }

/-- reachability from the changed keys through recorded backward edges, not passing through a
    firewall or projection -/
def affected (s : St) (changed : List Key) : Nat → Key → Bool
  | 0, _ => false
  | f + 1, k =>
    changed.contains k ||
      (match s.nodes k with
       | some n => !isFwPj n.kind && n.deps.any (fun d => affected s changed f d.1)
       | none => false)

def hasEdge (s : St) (c x : Key) : Bool :=
  match s.nodes c with
  | some n => n.deps.any (fun e => e.1 == x)
  | none => false

/-- dirty propagation from the keys `changed` -/
def markDirty (s : St) (changed : List Key) : St :=
  { s with dirty := fun c x => s.dirty c x || (hasEdge s c x && affected s changed (x + 1) x) }

/-- the re-execution of the firewall / projection `k` returned a value different from the stored one -/
def valueChanged (s : St) (k : Key) (v : Val) : Bool :=
  match s.nodes k with
  | some o => isFwPj o.kind && decide (o.value ≠ v)
  | none => false

/-- `f1r`: the projection `k` is published with a set different from the stored one -/
def projTfcChanged (s : St) (k : Key) (t : List Key) : Bool :=
  match s.nodes k with
  | some o => decide (o.kind = .projection) && decide (o.tfc ≠ t)
  | none => false

/-- `execute_query` + `set_computed` -/
def execute (q : Q) (k : Key) (d : NodeDef) (s : St) : Except Err (Val × St) :=
  match runProg q d.prog {} s with
  | .error e => .error e
  | .ok (v, a, s1) =>
    -- `f1r`: a projection whose set changes is treated like one whose value changes
    let changed : Bool := valueChanged s1 k v || projTfcChanged s1 k a.tfc
    let s2 := if changed then markDirty s1 [k] else s1
    .ok (v, install s2 k { kind := d.kind, lastVerified := s1.epoch, value := v, deps := a.deps,
                           seen := a.seen, tfc := a.tfc, pendingBP := changed || hasPending s1 k })

/-- the node of an external key computed on first demand -/
def extNode (s : St) (d : NodeDef) : Node :=
  { kind := .external, lastVerified := s.epoch, value := d.ext s.world, deps := [],
    seen := fun _ => [], tfc := [], pendingBP := false }

/-- first demand of an external key: its executor reads the world -/
def executeExt (k : Key) (d : NodeDef) (s : St) : Val × St :=
  (d.ext s.world, install s k (extNode s d))

/-- `clean_query` -/
def cleanNode (s : St) (n : Node) (moved : Bool) : Node :=
  if moved then { n with lastVerified := s.epoch, tfc := recomputeTfc s n.deps, seen := tfcOf s }
  else { n with lastVerified := s.epoch }

/-- `query_for` for a query caller (`pedantic` is inherited by every request below) -/
def queryQ (p : Program) : Nat → Bool → Q
  | 0, _, _, _ => .error .outOfFuel
  | fuel + 1, ped, k, s =>
    match s.nodes k with
    | none =>
      match p[k]? with
      | none => .error (.badKey k)
      | some d =>
        match d.kind with
        | .input => .error (.inputNotSet k)
        | .external => .ok (executeExt k d s)
        | _ => execute (queryQ p fuel ped) k d s
    | some n =>
      if n.lastVerified = s.epoch then .ok (n.value, s)
      else
        match p[k]? with
        | none => .error (.badKey k)
        | some d =>
          match repairDeps (queryQ p fuel ped) k (!ped && decide (n.kind ≠ .projection)) n.seen n.deps false [] s with
          | .error e => .error e
          | .ok (true, _, _, s1) => execute (queryQ p fuel ped) k d s1
          | .ok (false, moved, cl, s1) =>
            let n' := cleanNode s1 n moved
            -- `f1r`: a projection whose set changes is treated like one whose value changes
            if n.kind = .projection ∧ n'.tfc ≠ n.tfc then
              .ok (n.value, setNode (clearDirtyList (markDirty s1 [k]) k cl) k { n' with pendingBP := true })
            else .ok (n.value, setNode (clearDirtyList s1 k cl) k n')

def fuelFor (p : Program) : Nat := p.length + 1

/-- requests for a list of keys, one after the other (a `tfc` set, a backward-projection set) -/
def queryEach (q : Q) : List Key → St → Except Err St
  | [], s => .ok s
  | c :: rest, s =>
    match q c s with
    | .error e => .error e
    | .ok (_, s1) => queryEach q rest s1

/-- the projections directly above `k` -/
def projsAbove (p : Program) (s : St) (k : Key) : List Key :=
  (List.range p.length).filter fun c =>
    match s.nodes c with
    | some n => decide (n.kind = .projection) && n.deps.any (fun e => e.1 == k)
    | none => false

def clearPending (s : St) (k : Key) : St :=
  match s.nodes k with
  | some n => setNode s k { n with pendingBP := false }
  | none => s

/-- `invoke_backward_projections` + `done_backward_projection` -/
def backProject (qb : Q) (p : Program) (k : Key) (s : St) : Except Err St :=
  match queryEach qb (projsAbove p s k) s with
  | .error e => .error e
  | .ok s1 => .ok (clearPending s1 k)

/-- `query_for` for the `BackwardProjectionPropagation` caller -/
def queryB (p : Program) : Nat → Q
  | 0, _, _ => .error .outOfFuel
  | fuel + 1, k, s =>
    -- since the F13 repair the projection is REPAIRED like for a pedantic query caller (every recorded
    -- callee repaired and compared), not re-executed unconditionally
    let r : Except Err (Val × St) := queryQ p (fuelFor p) true k s
    match r with
    | .error e => .error e
    | .ok (v, s1) =>
      if hasPending s1 k then
        match backProject (queryB p fuel) p k s1 with
        | .error e => .error e
        | .ok s2 => .ok (v, s2)
      else .ok (v, s1)

/-- `repair_transitive_firewall_callees` of `k` (only when `k` has a node that is not verified) -/
def repairTfc (qf : Q) (k : Key) (s : St) : Except Err St :=
  match s.nodes k with
  | none => .ok s
  | some n => if n.lastVerified = s.epoch then .ok s else queryEach qf n.tfc s

/-- `query_for` for the `RepairFirewall` caller -/
def queryF (p : Program) : Nat → Q
  | 0, _, _ => .error .outOfFuel
  | fuel + 1, k, s =>
    match repairTfc (queryF p fuel) k s with
    | .error e => .error e
    | .ok s1 =>
      match queryQ p (fuelFor p) false k s1 with
      | .error e => .error e
      | .ok (v, s2) =>
        if hasPending s2 k then
          match backProject (queryB p (fuelFor p)) p k s2 with
          | .error e => .error e
          | .ok s3 => .ok (v, s3)
        else .ok (v, s2)

/-- `query_for` for the user -/
def queryU (p : Program) (fuel : Nat) : Q := fun k s =>
  match repairTfc (queryF p fuel) k s with
  | .error e => .error e
  | .ok s1 => queryQ p fuel false k s1

/-- `Engine::query_for` -/
def query (p : Program) (fuel : Nat) (c : Caller) : Q :=
  match c with
  | .user => queryU p fuel
  | .query _ _ ped => queryQ p fuel ped
  | .bpp => queryB p fuel
  | .repairFirewall => queryF p fuel

def isExtNode (s : St) (k : Key) : Bool :=
  match s.nodes k with
  | some n => decide (n.kind = .external)
  | none => false

/-- the node of `k` after a refresh: an external node gets the value its executor returns now -/
def refreshNode (p : Program) (s : St) (k : Key) : Option Node :=
  match s.nodes k, p[k]? with
  | some n, some d =>
    if n.kind = .external then
      some { n with lastVerified := s.epoch, value := d.ext s.world, deps := [] }
    else some n
  | o, _ => o

/-- the result of re-running the executor of the external key `k` differs from the stored one -/
def extChanged (p : Program) (s : St) (k : Key) : Bool :=
  match s.nodes k, p[k]? with
  | some n, some d => decide (n.kind = .external) && decide (n.value ≠ d.ext s.world)
  | _, _ => false

/-- `refresh` -/
def refreshAll (p : Program) (s : St) (ch : List Key) : St × List Key :=
  let exts := (List.range p.length).filter (isExtNode s)
  ({ s with nodes := refreshNode p s, log := s.log ++ exts }, ch ++ exts.filter (extChanged p s))

/-- `set_computed_input` -/
def inputNode (s : St) (v : Val) : Node :=
  { kind := .input, lastVerified := s.epoch, value := v, deps := [], seen := fun _ => [], tfc := [],
    pendingBP := false }

/-- the writes of one session: `set_input` per `set`, `refresh` -/
def applySets (p : Program) : List Write → St → List SetRes → List Key →
    Except Err (St × List SetRes × List Key)
  | [], s, rs, ch => .ok (s, rs, ch)
  | .set k v :: rest, s, rs, ch =>
    match p[k]? with
    | none => .error (.badKey k)
    | some d =>
      if d.kind ≠ .input then .error .badOp
      else
        let r := match s.nodes k with
          | none => SetRes.fresh
          | some n => if n.value ≠ v then .updated else .unchanged
        applySets p rest (setNode s k (inputNode s v)) (rs ++ [r]) (if r = .updated then ch ++ [k] else ch)
  | .world _ _ :: rest, s, rs, ch => applySets p rest s (rs ++ [.world]) ch
  | .refresh :: rest, s, rs, ch =>
    let r := refreshAll p s ch
    applySets p rest r.1 (rs ++ [.refreshed]) r.2

/-- `input_session()` (epoch bump) · writes · `commit()` (dirty propagation) -/
def session (p : Program) (ws : List Write) (s : St) : Except Err (List SetRes × St) :=
  match applySets p ws { s with epoch := s.epoch + 1, world := applyWorld ws s.world } [] [] with
  | .error e => .error e
  | .ok (s1, rs, changed) => .ok (rs, markDirty s1 changed)

/-- one tracked engine: keys in order through its local cache -/
def roundAux (p : Program) (fuel : Nat) : List Key → List (Key × Val) → List Val → St → Except Err (List Val × St)
  | [], _, out, s => .ok (out, s)
  | k :: rest, cache, out, s =>
    match cache.find? (fun e => e.1 == k) with
    | some e => roundAux p fuel rest cache (out ++ [e.2]) s
    | none =>
      match query p fuel .user k s with
      | .error e => .error e
      | .ok (v, s1) => roundAux p fuel rest (cache ++ [(k, v)]) (out ++ [v]) s1

def round (p : Program) (fuel : Nat) (ks : List Key) (s : St) : Except Err (List Val × St) :=
  roundAux p fuel ks [] [] s

-- ------------------------------------------------------------------ specification

/-- from-scratch value of key `k` on the committed inputs and the external values `ext` -/
def evalSpec (p : Program) (inputs : Key → Option Val) (ext : Key → Option Val) : Nat → Key → Option Val
  | 0, _ => none
  | f + 1, k =>
    match p[k]? with
    | none => none
    | some d =>
      match d.kind with
      | .input => inputs k
      | .external => ext k
      | _ => evalProg (evalSpec p inputs ext f) d.prog

/-- every key an executor can ask, whatever it reads, satisfies `P` -/
def ProgAll (P : Key → Prop) : Prog → Prop
  | .ret _ => True
  | .ask d cont => P d ∧ ∀ v, ProgAll P (cont v)
  | .askAll ks cont => (∀ d, d ∈ ks → P d) ∧ ∀ vs, ProgAll P (cont vs)

def kindOf (p : Program) (k : Key) : Option Kind := (p[k]?).map (·.kind)

/-- static rank = index (an executor of key `k` only asks keys `< k`); a projection reads firewall
    and projection keys only -/
def WF (p : Program) : Prop :=
  ∀ (k : Key) (d : NodeDef), p[k]? = some d → d.kind ≠ .input → d.kind ≠ .external →
    d.prog.Below k ∧
    (d.kind = .projection →
      ProgAll (fun x => kindOf p x = some .firewall ∨ kindOf p x = some .projection) d.prog)

/-- the program has no projection node -/
def NoProj (p : Program) : Prop := ∀ (k : Key) (d : NodeDef), p[k]? = some d → d.kind ≠ .projection

/-- the executor reads exactly the keys `ks`, in this order, whatever the values it reads -/
def ProgStatic : Prog → List Key → Prop
  | .ret _, ks => ks = []
  | .ask d cont, ks => ∃ rest, ks = d :: rest ∧ ∀ v, ProgStatic (cont v) rest
  | .askAll ks' cont, ks => ∃ rest, ks = ks' ++ rest ∧ ∀ vs, ProgStatic (cont vs) rest

/-- every projection has a value-independent read sequence (projections may read projections) -/
def StaticProj (p : Program) : Prop :=
  ∀ (k : Key) (d : NodeDef), p[k]? = some d → d.kind = .projection → ∃ ks, ProgStatic d.prog ks

/-- every projection reads firewalls only (no projection over a projection) -/
def NoProjOverProj (p : Program) : Prop :=
  ∀ (k : Key) (d : NodeDef), p[k]? = some d → d.kind = .projection →
    ProgAll (fun x => kindOf p x = some .firewall) d.prog

/-- the executor of the key has a value-independent read sequence -/
def IsStaticKey (p : Program) (x : Key) : Prop := ∃ d ks, p[x]? = some d ∧ ProgStatic d.prog ks

/-- the program class the C01 / C03 theorems of the extended core model are proved for: EVERY PROJECTION
    THAT IS READ BY A PROJECTION HAS A VALUE-INDEPENDENT READ SEQUENCE — a projection reads firewalls and
    static projections only; its own reads may depend on the values it reads (dynamic projections sit on
    top of the projection chains).  Contains `NoProjOverProj` (no projection reads a projection) and
    `StaticProj` (every projection is static). -/
def Shape (p : Program) : Prop :=
  ∀ (k : Key) (d : NodeDef), p[k]? = some d → d.kind = .projection →
    ProgAll (fun x => kindOf p x = some .firewall ∨ (kindOf p x = some .projection ∧ IsStaticKey p x)) d.prog

-- ------------------------------------------------------------------ bridge from the full model's programs

def ofKind : Qbice.Engine.Kind → Kind
  | .input => .input
  | .external => .external
  | .normal => .normal
  | .firewall => .firewall
  | .projection => .projection

def ofProgram (p : Qbice.Engine.Program) : Program :=
  p.map fun d => { kind := ofKind d.kind, prog := Qbice.Core.ofProg d.prog, ext := Qbice.Core.extFun d.prog }

end Qbice.CoreFw
