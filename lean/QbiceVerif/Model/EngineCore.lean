/-
Core engine model: the fragment of the engine used by programs that consist of input, normal and
external-input queries with single (ordered) reads and unordered read groups — verification stamps
per epoch, repair in recorded dependency order with the clean-edge shortcut, fingerprint comparison
(early cut-off), re-execution with dynamic dependency sets, dirty propagation at commit, `refresh`
of the external inputs.  This is the model the C01/C03 theorems are proved about;
`Model/Engine.lean` is the full model (firewalls, projections, cycles).  Both are run against the
implementation by the correspondence check.

Representation chosen for provability: maps are functions, the static rank of a key is its index
(`WF`: an executor of key `k` only asks keys `< k`), recursion is by fuel with the recursive call
passed as a parameter (`repairDeps q`, `runProg q`).  Dirty propagation is modelled by its fixed
point (`affected`): an edge `(c, x)` is marked iff `x` is reachable from a changed input through
recorded backward edges — what the dirty worker's breadth-first traversal computes.

External-input queries: the executor of an external key reads no query, only the harness-controlled
`world` (constant between two sessions).  It runs on first demand, is never re-run by a query, and
`refresh` (a session write) re-runs the executor of every external key computed so far.

Unordered read groups (`Prog.askAll`): the members are queried one after the other; the recorded
dependencies stay one flat ordered list (the engine records `Unordered [..]` and, on repair, checks
the members concurrently and stops at the first difference; sequentially: in list order).
-/
import QbiceVerif.Model.Engine
namespace Qbice.Core

abbrev Key := Nat
abbrev Val := Int

inductive Kind | input | normal | external
  deriving DecidableEq, Repr

inductive Prog where
  | ret (v : Val)
  | ask (k : Key) (cont : Val → Prog)
  /-- unordered read group -/
  | askAll (ks : List Key) (cont : List Val → Prog)

structure NodeDef where
  kind : Kind
  /-- executor of a normal key -/
  prog : Prog
  /-- executor of an external key: a function of the world -/
  ext : (Key → Val) → Val := fun _ => 0

abbrev Program := List NodeDef

structure Node where
  kind : Kind
  lastVerified : Nat
  value : Val
  /-- recorded reads in order (first occurrence of each callee) with the observed value -/
  deps : List (Key × Val)

inductive Err | outOfFuel | badKey (k : Key) | inputNotSet (k : Key) | badOp
  deriving Repr, DecidableEq

structure St where
  epoch : Nat := 0
  nodes : Key → Option Node := fun _ => none
  dirty : Key → Key → Bool := fun _ _ => false
  /-- the harness-controlled cells read by external executors -/
  world : Key → Val := fun _ => 0
  log : List Key := []

def setNode (s : St) (k : Key) (n : Node) : St :=
  { s with nodes := fun x => if x = k then some n else s.nodes x }

def clearDirty (s : St) (c x : Key) : St :=
  { s with dirty := fun a b => if a = c ∧ b = x then false else s.dirty a b }

def clearDirtyFrom (s : St) (c : Key) : St :=
  { s with dirty := fun a b => if a = c then false else s.dirty a b }

abbrev Q := Key → St → Except Err (Val × St)

/-- `recompute_decision_based_on_forward_edges` over the recorded dependencies, in order:
    a clean edge is skipped (`NoNeed`), a dirty one has its callee repaired and compared. -/
def repairDeps (q : Q) (k : Key) : List (Key × Val) → St → Except Err (Bool × St)
  | [], s => .ok (false, s)
  | (d, o) :: rest, s =>
    if s.dirty k d = false then repairDeps q k rest s
    else
      match q d s with
      | .error e => .error e
      | .ok (v, s1) =>
        if v ≠ o then .ok (true, s1)
        else repairDeps q k rest (clearDirty s1 k d)

def recordDep (acc : List (Key × Val)) (d : Key) (v : Val) : List (Key × Val) :=
  if acc.any (fun e => e.1 == d) then acc else acc ++ [(d, v)]

def recordAll (acc : List (Key × Val)) : List (Key × Val) → List (Key × Val)
  | [] => acc
  | (d, v) :: rest => recordAll (recordDep acc d v) rest

/-- the members of an unordered group, queried one after the other -/
def askMany (q : Q) : List Key → St → Except Err (List (Key × Val) × St)
  | [], s => .ok ([], s)
  | d :: rest, s =>
    match q d s with
    | .error e => .error e
    | .ok (v, s1) =>
      match askMany q rest s1 with
      | .error e => .error e
      | .ok (kvs, s2) => .ok ((d, v) :: kvs, s2)

/-- running an executor: every `ask` is a query for the dependency -/
def runProg (q : Q) : Prog → List (Key × Val) → St → Except Err (Val × List (Key × Val) × St)
  | .ret v, acc, s => .ok (v, acc, s)
  | .ask d cont, acc, s =>
    match q d s with
    | .error e => .error e
    | .ok (v, s1) => runProg q (cont v) (recordDep acc d v) s1
  | .askAll ks cont, acc, s =>
    match askMany q ks s with
    | .error e => .error e
    | .ok (kvs, s1) => runProg q (cont (kvs.map (·.2))) (recordAll acc kvs) s1

/-- `set_computed`: the node is replaced, its dirty edges are gone, the invocation is logged -/
def install (s : St) (k : Key) (n : Node) : St :=
  let s3 := setNode (clearDirtyFrom s k) k n
  { s3 with log := s3.log ++ [k] }

def execute (q : Q) (k : Key) (prog : Prog) (s : St) : Except Err (Val × St) :=
  match runProg q prog [] s with
  | .error e => .error e
  | .ok (v, deps, s1) =>
    .ok (v, install s1 k { kind := .normal, lastVerified := s1.epoch, value := v, deps := deps })

/-- first demand of an external key: its executor reads the world -/
def executeExt (k : Key) (d : NodeDef) (s : St) : Val × St :=
  let v := d.ext s.world
  (v, install s k { kind := .external, lastVerified := s.epoch, value := v, deps := [] })

/-- `query_for` for this fragment. -/
def query (p : Program) : Nat → Q
  | 0, _, _ => .error .outOfFuel
  | fuel + 1, k, s =>
    match s.nodes k with
    | none =>
      match p[k]? with
      | none => .error (.badKey k)
      | some d =>
        match d.kind with
        | .input => .error (.inputNotSet k)
        | .external => .ok (executeExt k d s)
        | .normal => execute (query p fuel) k d.prog s
    | some n =>
      if n.lastVerified = s.epoch then .ok (n.value, s)
      else if n.kind ≠ .normal then .ok (n.value, setNode s k { n with lastVerified := s.epoch })
      else
        match p[k]? with
        | none => .error (.badKey k)
        | some d =>
          match repairDeps (query p fuel) k n.deps s with
          | .error e => .error e
          | .ok (true, s1) => execute (query p fuel) k d.prog s1
          | .ok (false, s1) => .ok (n.value, setNode s1 k { n with lastVerified := s1.epoch })

def fuelFor (p : Program) : Nat := p.length + 1

/-- reachability from the changed keys through recorded backward edges, as seen from the caller -/
def affected (s : St) (changed : List Key) : Nat → Key → Bool
  | 0, _ => false
  | f + 1, k =>
    changed.contains k ||
      (match s.nodes k with
       | some n => n.deps.any (fun d => affected s changed f d.1)
       | none => false)

inductive Write | set (k : Key) (v : Val) | refresh | world (k : Key) (v : Val)
  deriving Repr, DecidableEq

inductive SetRes | fresh | updated | unchanged | refreshed | world
  deriving Repr, DecidableEq

/-- the world writes of a session take effect before the session starts -/
def applyWorld : List Write → (Key → Val) → (Key → Val)
  | [], w => w
  | .world c v :: rest, w => applyWorld rest (fun x => if x = c then v else w x)
  | _ :: rest, w => applyWorld rest w

def isExtNode (s : St) (k : Key) : Bool :=
  match s.nodes k with
  | some n => decide (n.kind = .external)
  | none => false

/-- the node of `k` after a refresh: an external node gets the value its executor returns now -/
def refreshNode (p : Program) (s : St) (k : Key) : Option Node :=
  match s.nodes k, p[k]? with
  | some n, some d =>
    if n.kind = .external then
      some { n with lastVerified := s.epoch, value := d.ext s.world, deps := [] }
    else some n
  | o, _ => o

/-- the result of re-running the executor of the external key `k` differs from the stored one -/
def extChanged (p : Program) (s : St) (k : Key) : Bool :=
  match s.nodes k, p[k]? with
  | some n, some d => decide (n.kind = .external) && decide (n.value ≠ d.ext s.world)
  | _, _ => false

/-- `refresh`: the executor of every external key computed so far runs again (logged, in key
    order); a changed result is treated like an `Updated` input; the nodes stay external -/
def refreshAll (p : Program) (s : St) (ch : List Key) : St × List Key :=
  let exts := (List.range p.length).filter (isExtNode s)
  ({ s with nodes := refreshNode p s, log := s.log ++ exts }, ch ++ exts.filter (extChanged p s))

/-- the writes of one session: `set_input` per `set`, `refresh` -/
def applySets (p : Program) : List Write → St → List SetRes → List Key →
    Except Err (St × List SetRes × List Key)
  | [], s, rs, ch => .ok (s, rs, ch)
  | .set k v :: rest, s, rs, ch =>
    match p[k]? with
    | none => .error (.badKey k)
    | some d =>
      if d.kind ≠ .input then .error .badOp
      else
        let r := match s.nodes k with
          | none => SetRes.fresh
          | some n => if n.value ≠ v then .updated else .unchanged
        let s' := setNode s k { kind := .input, lastVerified := s.epoch, value := v, deps := [] }
        applySets p rest s' (rs ++ [r]) (if r = .updated then ch ++ [k] else ch)
  | .world _ _ :: rest, s, rs, ch => applySets p rest s (rs ++ [.world]) ch
  | .refresh :: rest, s, rs, ch =>
    let r := refreshAll p s ch
    applySets p rest r.1 (rs ++ [.refreshed]) r.2

/-- `input_session()` (epoch bump) · writes · `commit()` (dirty propagation) -/
def session (p : Program) (ws : List Write) (s : St) : Except Err (List SetRes × St) :=
  match applySets p ws { s with epoch := s.epoch + 1, world := applyWorld ws s.world } [] [] with
  | .error e => .error e
  | .ok (s1, rs, changed) =>
    let aff := affected s1 changed (p.length + 1)
    let hasEdge : Key → Key → Bool := fun c x =>
      match s1.nodes c with
      | some n => n.deps.any (fun e => e.1 == x)
      | none => false
    .ok (rs, { s1 with dirty := fun c x => s1.dirty c x || (hasEdge c x && aff x) })

/-- one tracked engine: keys in order through its local cache -/
def roundAux (p : Program) (fuel : Nat) : List Key → List (Key × Val) → List Val → St → Except Err (List Val × St)
  | [], _, out, s => .ok (out, s)
  | k :: rest, cache, out, s =>
    match cache.find? (fun e => e.1 == k) with
    | some e => roundAux p fuel rest cache (out ++ [e.2]) s
    | none =>
      match query p fuel k s with
      | .error e => .error e
      | .ok (v, s1) => roundAux p fuel rest (cache ++ [(k, v)]) (out ++ [v]) s1

def round (p : Program) (fuel : Nat) (ks : List Key) (s : St) : Except Err (List Val × St) :=
  roundAux p fuel ks [] [] s

-- ------------------------------------------------------------------ specification

/-- the values of all keys of a group, if all are defined -/
def allVals (rec : Key → Option Val) : List Key → Option (List Val)
  | [] => some []
  | d :: rest =>
    match rec d with
    | none => none
    | some v =>
      match allVals rec rest with
      | none => none
      | some vs => some (v :: vs)

/-- from-scratch evaluation of an executor given the values of lower keys -/
def evalProg (rec : Key → Option Val) : Prog → Option Val
  | .ret v => some v
  | .ask d cont => match rec d with
    | some v => evalProg rec (cont v)
    | none => none
  | .askAll ks cont => match allVals rec ks with
    | some vs => evalProg rec (cont vs)
    | none => none

/-- from-scratch value of key `k` on the committed inputs and the external values `ext` (the world
    as of the first demand / last refresh of each external key); fuel `k+1` suffices for `WF`
    programs -/
def evalSpec (p : Program) (inputs : Key → Option Val) (ext : Key → Option Val) : Nat → Key → Option Val
  | 0, _ => none
  | f + 1, k =>
    match p[k]? with
    | none => none
    | some d =>
      match d.kind with
      | .input => inputs k
      | .external => ext k
      | .normal => evalProg (evalSpec p inputs ext f) d.prog

/-- every key an executor can ask, whatever it reads, is below `bound` -/
def Prog.Below (bound : Nat) : Prog → Prop
  | .ret _ => True
  | .ask d cont => d < bound ∧ ∀ v, Prog.Below bound (cont v)
  | .askAll ks cont => (∀ d, d ∈ ks → d < bound) ∧ ∀ vs, Prog.Below bound (cont vs)

/-- static rank = index -/
def WF (p : Program) : Prop :=
  ∀ (k : Key) (d : NodeDef), p[k]? = some d → d.kind = .normal → d.prog.Below k

-- ------------------------------------------------------------------ bridge from the full model's programs

/-- Programs of the full model that lie in the core fragment (the driver checks the fragment). -/
def ofProg : Qbice.Engine.Prog → Prog
  | .ret v => .ret v
  | .ask k c => .ask k fun v => ofProg (c v)
  | .askAll ks c => .askAll ks fun vs => ofProg (c vs)
  | .world _ c => ofProg (c 0)         -- not in the fragment (normal executors read no world cell)

/-- the executor of an external key as a function of the world -/
def extFun : Qbice.Engine.Prog → (Key → Val) → Val
  | .ret v, _ => v
  | .world c cont, w => extFun (cont (w c)) w
  | .ask _ _, _ => 0                   -- not in the fragment (external executors read no query)
  | .askAll _ _, _ => 0                -- not in the fragment

def ofKind : Qbice.Engine.Kind → Kind
  | .input => .input
  | .external => .external
  | _ => .normal                        -- firewall / projection: not in the fragment

def ofProgram (p : Qbice.Engine.Program) : Program :=
  p.map fun d => { kind := ofKind d.kind, prog := ofProg d.prog, ext := extFun d.prog }

end Qbice.Core
