/-
Core engine model: the fragment of the engine used by programs that consist of input and normal
queries with single (ordered) reads — verification stamps per epoch, repair in recorded dependency
order with the clean-edge shortcut, fingerprint comparison (early cut-off), re-execution with
dynamic dependency sets, dirty propagation at commit.  This is the model the C01/C03 theorems are
proved about; `Model/Engine.lean` is the full model (firewalls, projections, cycles).  Both are run
against the implementation by the correspondence check.

Representation chosen for provability: maps are functions, the static rank of a key is its index
(`WF`: an executor of key `k` only asks keys `< k`), recursion is by fuel with the recursive call
passed as a parameter (`repairDeps q`, `runProg q`).  Dirty propagation is modelled by its fixed
point (`affected`): an edge `(c, x)` is marked iff `x` is reachable from a changed input through
recorded backward edges — what the dirty worker's breadth-first traversal computes.
-/
import QbiceVerif.Model.Engine
namespace Qbice.Core

abbrev Key := Nat
abbrev Val := Int

inductive Prog where
  | ret (v : Val)
  | ask (k : Key) (cont : Val → Prog)

structure NodeDef where
  isInput : Bool
  prog : Prog

abbrev Program := List NodeDef

structure Node where
  isInput : Bool
  lastVerified : Nat
  value : Val
  /-- recorded reads in order (first occurrence of each callee) with the observed value -/
  deps : List (Key × Val)

inductive Err | outOfFuel | badKey (k : Key) | inputNotSet (k : Key) | badOp
  deriving Repr, DecidableEq

structure St where
  epoch : Nat := 0
  nodes : Key → Option Node := fun _ => none
  dirty : Key → Key → Bool := fun _ _ => false
  log : List Key := []

def setNode (s : St) (k : Key) (n : Node) : St :=
  { s with nodes := fun x => if x = k then some n else s.nodes x }

def clearDirty (s : St) (c x : Key) : St :=
  { s with dirty := fun a b => if a = c ∧ b = x then false else s.dirty a b }

def clearDirtyFrom (s : St) (c : Key) : St :=
  { s with dirty := fun a b => if a = c then false else s.dirty a b }

abbrev Q := Key → St → Except Err (Val × St)

/-- `recompute_decision_based_on_forward_edges` over the recorded dependencies, in order:
    a clean edge is skipped (`NoNeed`), a dirty one has its callee repaired and compared. -/
def repairDeps (q : Q) (k : Key) : List (Key × Val) → St → Except Err (Bool × St)
  | [], s => .ok (false, s)
  | (d, o) :: rest, s =>
    if s.dirty k d = false then repairDeps q k rest s
    else
      match q d s with
      | .error e => .error e
      | .ok (v, s1) =>
        if v ≠ o then .ok (true, s1)
        else repairDeps q k rest (clearDirty s1 k d)

def recordDep (acc : List (Key × Val)) (d : Key) (v : Val) : List (Key × Val) :=
  if acc.any (fun e => e.1 == d) then acc else acc ++ [(d, v)]

/-- running an executor: every `ask` is a query for the dependency -/
def runProg (q : Q) : Prog → List (Key × Val) → St → Except Err (Val × List (Key × Val) × St)
  | .ret v, acc, s => .ok (v, acc, s)
  | .ask d cont, acc, s =>
    match q d s with
    | .error e => .error e
    | .ok (v, s1) => runProg q (cont v) (recordDep acc d v) s1

def execute (q : Q) (k : Key) (prog : Prog) (s : St) : Except Err (Val × St) :=
  match runProg q prog [] s with
  | .error e => .error e
  | .ok (v, deps, s1) =>
    let s2 := clearDirtyFrom s1 k
    let s3 := setNode s2 k { isInput := false, lastVerified := s2.epoch, value := v, deps := deps }
    .ok (v, { s3 with log := s3.log ++ [k] })

/-- `query_for` for this fragment. -/
def query (p : Program) : Nat → Q
  | 0, _, _ => .error .outOfFuel
  | fuel + 1, k, s =>
    match s.nodes k with
    | none =>
      match p[k]? with
      | none => .error (.badKey k)
      | some d => if d.isInput then .error (.inputNotSet k) else execute (query p fuel) k d.prog s
    | some n =>
      if n.lastVerified = s.epoch then .ok (n.value, s)
      else if n.isInput then .ok (n.value, setNode s k { n with lastVerified := s.epoch })
      else
        match p[k]? with
        | none => .error (.badKey k)
        | some d =>
          match repairDeps (query p fuel) k n.deps s with
          | .error e => .error e
          | .ok (true, s1) => execute (query p fuel) k d.prog s1
          | .ok (false, s1) => .ok (n.value, setNode s1 k { n with lastVerified := s1.epoch })

def fuelFor (p : Program) : Nat := p.length + 1

/-- reachability from the changed keys through recorded backward edges, as seen from the caller -/
def affected (s : St) (changed : List Key) : Nat → Key → Bool
  | 0, _ => false
  | f + 1, k =>
    changed.contains k ||
      (match s.nodes k with
       | some n => n.deps.any (fun d => affected s changed f d.1)
       | none => false)

inductive SetRes | fresh | updated | unchanged
  deriving Repr, DecidableEq

/-- the writes of one session: `set_input` per write -/
def applySets (p : Program) : List (Key × Val) → St → List SetRes → List Key →
    Except Err (St × List SetRes × List Key)
  | [], s, rs, ch => .ok (s, rs, ch)
  | (k, v) :: rest, s, rs, ch =>
    match p[k]? with
    | none => .error (.badKey k)
    | some d =>
      if !d.isInput then .error .badOp
      else
        let r := match s.nodes k with
          | none => SetRes.fresh
          | some n => if n.value ≠ v then .updated else .unchanged
        let s' := setNode s k { isInput := true, lastVerified := s.epoch, value := v, deps := [] }
        applySets p rest s' (rs ++ [r]) (if r = .updated then ch ++ [k] else ch)

/-- `input_session()` (epoch bump) · writes · `commit()` (dirty propagation) -/
def session (p : Program) (sets : List (Key × Val)) (s : St) : Except Err (List SetRes × St) :=
  match applySets p sets { s with epoch := s.epoch + 1 } [] [] with
  | .error e => .error e
  | .ok (s1, rs, changed) =>
    let aff := affected s1 changed (p.length + 1)
    let hasEdge : Key → Key → Bool := fun c x =>
      match s1.nodes c with
      | some n => n.deps.any (fun e => e.1 == x)
      | none => false
    .ok (rs, { s1 with dirty := fun c x => s1.dirty c x || (hasEdge c x && aff x) })

/-- one tracked engine: keys in order through its local cache -/
def roundAux (p : Program) (fuel : Nat) : List Key → List (Key × Val) → List Val → St → Except Err (List Val × St)
  | [], _, out, s => .ok (out, s)
  | k :: rest, cache, out, s =>
    match cache.find? (fun e => e.1 == k) with
    | some e => roundAux p fuel rest cache (out ++ [e.2]) s
    | none =>
      match query p fuel k s with
      | .error e => .error e
      | .ok (v, s1) => roundAux p fuel rest (cache ++ [(k, v)]) (out ++ [v]) s1

def round (p : Program) (fuel : Nat) (ks : List Key) (s : St) : Except Err (List Val × St) :=
  roundAux p fuel ks [] [] s

-- ------------------------------------------------------------------ specification

/-- from-scratch evaluation of an executor given the values of lower keys -/
def evalProg (rec : Key → Option Val) : Prog → Option Val
  | .ret v => some v
  | .ask d cont => match rec d with
    | some v => evalProg rec (cont v)
    | none => none

/-- from-scratch value of key `k` on the committed inputs; fuel `k+1` suffices for `WF` programs -/
def evalSpec (p : Program) (inputs : Key → Option Val) : Nat → Key → Option Val
  | 0, _ => none
  | f + 1, k =>
    match p[k]? with
    | none => none
    | some d => if d.isInput then inputs k else evalProg (evalSpec p inputs f) d.prog

/-- every key an executor can ask, whatever it reads, is below `bound` -/
def Prog.Below (bound : Nat) : Prog → Prop
  | .ret _ => True
  | .ask d cont => d < bound ∧ ∀ v, Prog.Below bound (cont v)

/-- static rank = index -/
def WF (p : Program) : Prop :=
  ∀ (k : Key) (d : NodeDef), p[k]? = some d → d.isInput = false → d.prog.Below k

-- ------------------------------------------------------------------ bridge from the full model's programs

/-- Programs of the full model that lie in the core fragment (the driver checks the fragment). -/
def ofProg : Qbice.Engine.Prog → Prog
  | .ret v => .ret v
  | .ask k c => .ask k fun v => ofProg (c v)
  | .askAll _ c => ofProg (c [])       -- not in the fragment
  | .world _ c => ofProg (c 0)         -- not in the fragment

def ofProgram (p : Qbice.Engine.Program) : Program :=
  p.map fun d => { isInput := d.kind == .input, prog := ofProg d.prog }

end Qbice.Core
