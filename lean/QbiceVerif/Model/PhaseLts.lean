/-!
# Model of the input-session / computation phase protocol (C04)

Labelled transition system of

* `Engine::tracked`            (`database/sync.rs` `acquire_active_computation_guard`)
* `Engine::input_session`      (`database/sync.rs` `acquire_active_input_session_guard`)
* `InputSession::set_input`, `commit`, `Drop for InputSession`, `commit_internal` (`input_session.rs`)
* the fast-path rule of `query_for` (`fast_path.rs`: a node whose `last_verified` equals the caller's
  sampled timestamp is trusted) and the clean-repair rule (`repair.rs` `check_callee`: no dirty edge ⇒
  keep the value and stamp the caller's timestamp)

Shared state: the `AtomicU64` timestamp (`epoch`), tokio's `RwLock<()>` (`phase_mutex`) with its FIFO
waiter queue, the stored inputs, a tiny engine (per derived key a stored value, the inputs it read,
`last_verified`, a dirty flag), the open session.  One event per atomic step of the code; the labels
are the hook labels emitted by the implementation (`phase:r:req`, …), so an emitted event *is* a model
event.  The order of the five opening steps of `input_session()` is the parameter `Cfg.lockFirst`:
`false` is the order of the code as it is (batch, bump, stage, then wait for the lock), `true` the
repaired order (lock first).

Imports nothing outside core: the driver links against this file.
-/

namespace QbiceVerif.Phase

abbrev Tid := Nat
abbrev Key := Nat
abbrev Val := Int
abbrev Inputs := Key → Val

/-- point update of a function on `Nat` -/
def upd {α : Type} (f : Nat → α) (k : Nat) (v : α) : Nat → α := fun x => if x = k then v else f x

/-- Static parameters. `exec k inp` is the executor of derived key `k` run on the stored inputs `inp`:
the value and the input keys it read (in the code: the recorded forward edges). -/
structure Cfg where
  /-- `false`: order of the code as it is (new batch, bump, stage, request lock, acquire);
      `true`: repaired order (request lock, acquire, new batch, bump, stage) -/
  lockFirst : Bool
  /-- `true`: grants are FIFO (tokio's `RwLock` is write-preferring/fair); `false`: any compatible waiter -/
  fair : Bool
  exec : Key → Inputs → Val × List Key

inductive CommitKind where
  | commit | drop
  deriving DecidableEq, Repr, Inhabited

/-- One operation of a task's script. A round is `tracked(); query*; drop`, the flag of a key says
whether it is an input key (`true`) or a derived key. A session is `input_session(); set_input*;`
then `commit().await` or a plain drop of the session object. -/
inductive Op where
  | round (keys : List (Bool × Key))
  | session (sets : List (Key × Val)) (kind : CommitKind)
  deriving Repr, Inhabited

/-- the five opening steps of `acquire_active_input_session_guard` -/
inductive OpenStep where
  | batch | bump | stage | req | acq
  deriving DecidableEq, Repr, Inhabited

def openOrder (lockFirst : Bool) : List OpenStep :=
  if lockFirst then [.req, .acq, .batch, .bump, .stage] else [.batch, .bump, .stage, .req, .acq]

inductive Pc where
  | idle
  /-- `read_owned()` polled, waiting for (or granted, not yet resumed with) the shared lock -/
  | rWait (ks : List (Bool × Key))
  /-- holds the shared lock, timestamp not yet loaded -/
  | rLocked (ks : List (Bool × Key))
  /-- the `TrackedEngine` exists: sampled epoch `e`, keys still to query -/
  | rActive (e : Nat) (ks : List (Bool × Key))
  /-- inside `input_session()`: `i` opening steps done, `e` = the timestamp it bumped to (0 before) -/
  | wOpen (i : Nat) (e : Nat) (sets : List (Key × Val)) (kind : CommitKind)
  /-- owns the `InputSession` -/
  | wActive (sets : List (Key × Val)) (kind : CommitKind)
  /-- inside `commit().await` -/
  | wCommitting
  deriving Repr, Inhabited

structure Task where
  pc : Pc
  script : List Op
  deriving Repr, Inhabited

structure Lock where
  /-- shared holders (granted; includes holders whose task has not resumed yet) -/
  readers : List Tid
  writer : Option Tid
  /-- waiters in arrival order; `true` = wants the exclusive lock -/
  queue : List (Tid × Bool)
  deriving Repr, Inhabited

structure Node where
  val : Val
  reads : List Key
  ver : Nat
  dirty : Bool
  deriving Repr, Inhabited, DecidableEq

inductive SPc where
  | active | begun | propagated | submitted
  deriving DecidableEq, Repr, Inhabited

/-- the open input session (exists from the end of `input_session()` to the release of the guard) -/
structure Sess where
  owner : Tid
  epoch : Nat
  pc : SPc
  /-- `dirty_batch`: keys whose `set_input` returned `Updated` -/
  batch : List Key
  /-- ghost: the writes so far, in order -/
  writes : List (Key × Val)
  /-- ghost: the stored inputs when the session became active -/
  base : Inputs

structure State where
  epoch : Nat
  lock : Lock
  tasks : Tid → Task
  inputs : Inputs
  nodes : Key → Option Node
  sess : Option Sess
  /-- ghost: released sessions in release order: (epoch, writes) -/
  done : List (Nat × List (Key × Val))
  /-- ghost: the inputs of the initial state -/
  base : Inputs

inductive Ev where
  /-- `phase:r:req` — about to poll `read_owned()` -/
  | rReq (t : Tid)
  /-- internal step of the lock: waiter `t` receives its permits -/
  | grant (t : Tid)
  /-- `phase:r:acq` — `read_owned().await` returned -/
  | rAcq (t : Tid)
  /-- `phase:r:sample` — `timestamp.load()` returned `e` -/
  | rSample (t : Tid) (e : Nat)
  /-- `TrackedEngine::query` of key `k` returned `v` -/
  | rQuery (t : Tid) (k : Key) (v : Val)
  /-- the `TrackedEngine` is dropped -/
  | rRel (t : Tid)
  /-- `phase:w:batch|bump|stage|req|acq`; `e` is the new timestamp for bump and stage (0 otherwise) -/
  | wStep (t : Tid) (st : OpenStep) (e : Nat)
  /-- `phase:w:set` — `set_input(k, v)` -/
  | wSet (t : Tid) (k : Key) (v : Val)
  /-- `phase:c:begin` from `commit()` -/
  | wCommit (t : Tid)
  /-- `phase:w:drop` — uncommitted session dropped, commit spawned -/
  | wDrop (t : Tid)
  /-- `phase:c:propagated` — `dirty_propagate_from_batch` finished -/
  | cPropagate (t : Tid)
  /-- `phase:c:submitted` — `submit_write_buffer` -/
  | cSubmit (t : Tid)
  /-- `phase:c:release` — the exclusive guard is dropped -/
  | cRel (t : Tid)
  /-- `commit().await` returned -/
  | wDone (t : Tid)
  deriving Repr, Inhabited

/-! ## the lock (tokio `RwLock` = FIFO semaphore; a writer needs all permits) -/

def Lock.compat (l : Lock) (excl : Bool) : Bool :=
  if excl then l.readers.isEmpty && l.writer.isNone else l.writer.isNone

def Lock.want (l : Lock) (t : Tid) : Option Bool :=
  (l.queue.find? (fun p => p.1 == t)).map (·.2)

def Lock.isHead (l : Lock) (t : Tid) : Bool :=
  match l.queue with
  | [] => false
  | p :: _ => p.1 == t

def Lock.grantable (fair : Bool) (l : Lock) (t : Tid) : Bool :=
  match l.want t with
  | none => false
  | some x => l.compat x && (!fair || l.isHead t)

def Lock.grant (l : Lock) (t : Tid) : Lock :=
  match l.want t with
  | none => l
  | some true => { l with queue := l.queue.filter (fun p => p.1 != t), writer := some t }
  | some false => { l with queue := l.queue.filter (fun p => p.1 != t), readers := t :: l.readers }

def Lock.enqueue (l : Lock) (t : Tid) (excl : Bool) : Lock :=
  { l with queue := l.queue ++ [(t, excl)] }

/-! ## the tiny engine -/

/-- `query_for` of a derived key by a caller whose sampled timestamp is `e` -/
def query (c : Cfg) (inputs : Inputs) (nodes : Key → Option Node) (e : Nat) (k : Key) :
    Val × (Key → Option Node) :=
  match nodes k with
  | none =>
    let r := c.exec k inputs
    (r.1, upd nodes k (some { val := r.1, reads := r.2, ver := e, dirty := false }))
  | some n =>
    if n.ver = e then (n.val, nodes)                      -- fast path: trusted
    else if n.dirty then
      let r := c.exec k inputs                            -- repair: a dirty edge ⇒ re-execute
      (r.1, upd nodes k (some { val := r.1, reads := r.2, ver := e, dirty := false }))
    else (n.val, upd nodes k (some { n with ver := e }))  -- repair: clean ⇒ keep, stamp `e`

/-- `dirty_propagate_from_batch`: every node that read a key of the batch gets a dirty edge -/
def markDirty (nodes : Key → Option Node) (batch : List Key) : Key → Option Node :=
  fun k => (nodes k).map (fun n => if n.reads.any (fun r => batch.contains r) then { n with dirty := true } else n)

/-! ## steps -/

def State.setTask (s : State) (t : Tid) (x : Task) : State := { s with tasks := upd s.tasks t x }

/-- position of a writer in `input_session()`: `(i, e, sets, kind, rest of the script)` -/
def openPos (x : Task) : Option (Nat × Nat × List (Key × Val) × CommitKind × List Op) :=
  match x.pc, x.script with
  | .idle, .session sets kind :: rest => some (0, 0, sets, kind, rest)
  | .wOpen i e sets kind, rest => some (i, e, sets, kind, rest)
  | _, _ => none

/-- state after the task finished its `i`-th opening step (`i` counts the steps done) -/
def afterOpen (s : State) (t : Tid) (i e : Nat) (sets : List (Key × Val)) (kind : CommitKind)
    (rest : List Op) : State :=
  if i < 5 then s.setTask t ⟨.wOpen i e sets kind, rest⟩
  else { s.setTask t ⟨.wActive sets kind, rest⟩ with
          sess := some { owner := t, epoch := e, pc := .active, batch := [], writes := [], base := s.inputs } }

/-- One step; `none` = the event is not enabled. -/
def step (c : Cfg) (s : State) : Ev → Option State
  | .rReq t =>
    match (s.tasks t).pc, (s.tasks t).script with
    | .idle, .round ks :: rest =>
      some { s.setTask t ⟨.rWait ks, rest⟩ with lock := s.lock.enqueue t false }
    | _, _ => none
  | .grant t =>
    if s.lock.grantable c.fair t then some { s with lock := s.lock.grant t } else none
  | .rAcq t =>
    match (s.tasks t).pc with
    | .rWait ks => if s.lock.readers.contains t ∧ s.lock.want t = none then some (s.setTask t ⟨.rLocked ks, (s.tasks t).script⟩) else none
    | _ => none
  | .rSample t e =>
    match (s.tasks t).pc with
    | .rLocked ks => if e = s.epoch then some (s.setTask t ⟨.rActive e ks, (s.tasks t).script⟩) else none
    | _ => none
  | .rQuery t k v =>
    match (s.tasks t).pc with
    | .rActive e ((isIn, k') :: ks) =>
      if k' = k then
        if isIn then
          if v = s.inputs k then some (s.setTask t ⟨.rActive e ks, (s.tasks t).script⟩) else none
        else
          let r := query c s.inputs s.nodes e k
          if v = r.1 then some { s.setTask t ⟨.rActive e ks, (s.tasks t).script⟩ with nodes := r.2 } else none
      else none
    | _ => none
  | .rRel t =>
    match (s.tasks t).pc with
    | .rActive _ [] =>
      some { s.setTask t ⟨.idle, (s.tasks t).script⟩ with lock := { s.lock with readers := s.lock.readers.erase t } }
    | _ => none
  | .wStep t st e =>
    match openPos (s.tasks t) with
    | none => none
    | some (i, e0, sets, kind, rest) =>
      if (openOrder c.lockFirst)[i]? = some st then
        match st with
        | .batch => if e = 0 then some (afterOpen s t (i + 1) e0 sets kind rest) else none
        | .bump =>
          if e = s.epoch + 1 then some (afterOpen { s with epoch := s.epoch + 1 } t (i + 1) e sets kind rest) else none
        | .stage => if e = e0 then some (afterOpen s t (i + 1) e0 sets kind rest) else none
        | .req =>
          if e = 0 then some (afterOpen { s with lock := s.lock.enqueue t true } t (i + 1) e0 sets kind rest) else none
        | .acq =>
          -- granted: it holds the exclusive lock and its request is no longer queued (a task whose
          -- detached, dropped session still holds the lock waits like everybody else)
          if e = 0 ∧ s.lock.writer = some t ∧ s.lock.want t = none then
            some (afterOpen s t (i + 1) e0 sets kind rest) else none
      else none
  | .wSet t k v =>
    match (s.tasks t).pc, s.sess with
    | .wActive ((k', v') :: sets) kind, some σ =>
      if k' = k ∧ v' = v ∧ σ.owner = t ∧ σ.pc = .active then
        some { s.setTask t ⟨.wActive sets kind, (s.tasks t).script⟩ with
                inputs := upd s.inputs k v
                sess := some { σ with batch := if s.inputs k = v then σ.batch else k :: σ.batch,
                                      writes := σ.writes ++ [(k, v)] } }
      else none
    | _, _ => none
  | .wCommit t =>
    match (s.tasks t).pc, s.sess with
    | .wActive [] .commit, some σ =>
      if σ.owner = t ∧ σ.pc = .active then
        some { s.setTask t ⟨.wCommitting, (s.tasks t).script⟩ with sess := some { σ with pc := .begun } }
      else none
    | _, _ => none
  | .wDrop t =>
    match (s.tasks t).pc, s.sess with
    | .wActive [] .drop, some σ =>
      if σ.owner = t ∧ σ.pc = .active then
        some { s.setTask t ⟨.idle, (s.tasks t).script⟩ with sess := some { σ with pc := .begun } }
      else none
    | _, _ => none
  | .cPropagate t =>
    match s.sess with
    | some σ =>
      if σ.owner = t ∧ σ.pc = .begun then
        some { s with nodes := markDirty s.nodes σ.batch, sess := some { σ with pc := .propagated } }
      else none
    | none => none
  | .cSubmit t =>
    match s.sess with
    | some σ =>
      if σ.owner = t ∧ σ.pc = .propagated then some { s with sess := some { σ with pc := .submitted } } else none
    | none => none
  | .cRel t =>
    match s.sess with
    | some σ =>
      if σ.owner = t ∧ σ.pc = .submitted then
        some { s with sess := none, lock := { s.lock with writer := none }, done := s.done ++ [(σ.epoch, σ.writes)] }
      else none
    | none => none
  | .wDone t =>
    match (s.tasks t).pc with
    | .wCommitting =>
      if (match s.sess with | some σ => σ.owner != t | none => true) then
        some (s.setTask t ⟨.idle, (s.tasks t).script⟩)
      else none
    | _ => none

def enabled (c : Cfg) (s : State) (e : Ev) : Bool := (step c s e).isSome

/-- initial state: epoch `e0`, inputs `inp`, no node computed, task `t` runs `scripts[t]` -/
def init (e0 : Nat) (inp : Inputs) (scripts : List (List Op)) : State :=
  { epoch := e0, lock := ⟨[], none, []⟩,
    tasks := fun t => ⟨.idle, scripts.getD t []⟩,
    inputs := inp, nodes := fun _ => none, sess := none, done := [], base := inp }

/-- run a schedule; `none` if some event is not enabled -/
def run (c : Cfg) : State → List Ev → Option State
  | s, [] => some s
  | s, e :: es => match step c s e with
    | none => none
    | some s' => run c s' es

inductive Reachable (c : Cfg) (s0 : State) : State → Prop where
  | init : Reachable c s0 s0
  | step {s s' : State} (e : Ev) : Reachable c s0 s → step c s e = some s' → Reachable c s0 s'

/-! ## specification-side definitions -/

def applyWrites (i : Inputs) (ws : List (Key × Val)) : Inputs := ws.foldl (fun i kv => upd i kv.1 kv.2) i

/-- the inputs of epoch `e`: the writes of the released sessions with epoch `≤ e`, whole sessions, in
release order, applied to the initial inputs -/
def snapshot (base : Inputs) (done : List (Nat × List (Key × Val))) (e : Nat) : Inputs :=
  (done.filter (fun σ => σ.1 ≤ e)).foldl (fun i σ => applyWrites i σ.2) base

def Task.finished (x : Task) : Bool :=
  match x.pc, x.script with
  | .idle, [] => true
  | _, _ => false

/-- all tasks `< n` have run their scripts to the end and no session is open -/
def State.final (s : State) (n : Nat) : Prop := (∀ t, t < n → (s.tasks t).finished = true) ∧ s.sess.isNone = true

end QbiceVerif.Phase

/-! ## the concrete executors of the correspondence harness

The harness's derived nodes are expressions over input keys (constants, reads, sums, a conditional on
a read, an unordered group of reads); `Expr.eval` is the executor: value and the keys read, in
evaluation order (only the branch taken is read). -/

namespace QbiceVerif.Phase

inductive Expr where
  | const (n : Int)
  | read (k : Key)
  | add (a b : Expr)
  | ifEq (c : Expr) (n : Int) (a b : Expr)
  | sumAll (ks : List Key)
  deriving Repr, Inhabited

def Expr.eval (inp : Inputs) : Expr → Val × List Key
  | .const n => (n, [])
  | .read k => (inp k, [k])
  | .add a b => ((a.eval inp).1 + (b.eval inp).1, (a.eval inp).2 ++ (b.eval inp).2)
  | .ifEq c n a b =>
    if (c.eval inp).1 = n then ((a.eval inp).1, (c.eval inp).2 ++ (a.eval inp).2)
    else ((b.eval inp).1, (c.eval inp).2 ++ (b.eval inp).2)
  | .sumAll ks => (ks.foldl (fun s k => s + inp k) 0, ks)

/-- executor table of a program; a key without an expression is not a derived key of the program
(the driver rejects cases that query one) -/
def progExec (prog : Key → Option Expr) : Key → Inputs → Val × List Key :=
  fun k inp => match prog k with
    | some e => e.eval inp
    | none => (0, [])

end QbiceVerif.Phase
