/-
Model of `qbice_storage::write_manager::write_behind::WriteBehind`
(/repo/crates/storage/src/write_manager/write_behind.rs) as a labelled transition system.

One event per atomic step of the code (one channel operation / one atomic RMW / one call into the
store):

  user threads      `create`            WriteBufferPool::get_buffer      epoch.fetch_add(1)
                    `submit e ops`      submit_write_batch               serialize_sender.send
  serializer w      `serTake w`         serialize_worker                 receiver.recv() = Ok(task)
                    `serSerialise w b`                                   write_to_db into a fresh buffer
                                                                         (b = the ops in hash-map iteration order)
                    `serSend w`                                          sender.send(WriteTask)
                    `serExit w`                                          receiver.recv() = Err  (closed and empty)
  commit worker     `cRecv`             commit_worker                    receiver.recv() = Ok ; holdback.push
                    `cRecvClosed`                                        receiver.recv() = Err (all senders gone)
                    `cPop`              process_pending_commits          peek = expected ; pop ; consume buffer ; expected += 1
                    `cBreak`                                             peek ≠ expected or heap empty
                    `cDecide more`                                       db_write_batch.should_write_more()
                    `cCommit`           CurrentBatch::flush              to_commit_db_batch.commit()
                    `cNotify`                                            one iteration of the after-commit loop
                    `cAssert`           commit_worker tail               assert!(holdback_queues.is_empty())
  after-commit      `aRecv`, `aExit`    after_commit_worker
  dropping thread   `dSetFlag`, `dClose`, `dJoinSers`, `dJoinCommit`, `dJoinAfter`     Drop for WriteBehind

Imports nothing outside core.
-/

namespace QbiceVerif.WB

/-- A key of the backing store.  `space = 0`: wide column cell (column, key, discriminant);
`space = 1`: set member (column, key, element).  The harness store uses the same structural keys,
so the encoding is injective by construction (C11 is what justifies that for the real backends). -/
structure SKey where
  space : Nat
  col : Nat
  key : Nat
  sub : Nat
deriving DecidableEq, Repr, Inhabited

/-- One physical write: `val = none` is a delete (`delete` / `delete_member`). -/
structure WOp where
  key : SKey
  val : Option Nat
deriving DecidableEq, Repr, Inhabited

/-- The backing store's content. -/
def Store := SKey → Option Nat

def Store.empty : Store := fun _ => none

def applyOp (s : Store) (o : WOp) : Store := fun k => if k = o.key then o.val else s k

def applyOps (s : Store) (ops : List WOp) : Store := ops.foldl applyOp s

/-- A logical write batch travelling through the pipeline.  `ops` is the content of the batch's
hash maps (one entry per store key); `buf` is the serialization buffer produced by a serializer
(empty before serialization). -/
structure Task where
  epoch : Nat
  ops : List WOp
  buf : List WOp
deriving DecidableEq, Repr, Inhabited

/-- Local state of one serializer worker. -/
inductive SerSt
  | idle
  | raw (t : Task)
  | done (t : Task)
  | exited
deriving DecidableEq, Repr, Inhabited

def SerSt.held : SerSt → List Task
  | .raw t => [t]
  | .done t => [t]
  | _ => []

def heldAll (l : List SerSt) : List Task := l.flatMap SerSt.held

/-- Program counter of the commit worker. -/
inductive CPc
  | wait                        -- blocked in `receiver.recv()`
  | loop                        -- top of `while let Some(top) = pending_commits.peek()`
  | decide                      -- about to call `should_write_more()`
  | commit                      -- inside `flush`, about to `commit()`
  | notify (rest : List Task)   -- inside `flush`, after-commit loop
  | lastCommit                  -- the unconditional final `current_batch.flush`
  | lastNotify (rest : List Task)
  | assert                      -- `assert!(holdback_queues.is_empty())`
  | done
deriving DecidableEq, Repr, Inhabited

/-- Program counter of the thread running `Drop for WriteBehind`. -/
inductive DPc
  | running | flagged | joinSers | joinCommit | joinAfter | returned
deriving DecidableEq, Repr, Inhabited

structure State where
  counter : Nat                 -- WriteBufferPool.epoch
  submitted : List Task         -- ghost: every batch ever submitted (buf = [])
  serQ : List Task              -- serialize channel (FIFO)
  sers : List SerSt             -- one entry per serializer worker
  serClosed : Bool              -- serialize_sender dropped
  commitQ : List Task           -- commit channel (FIFO)
  heap : List Task              -- holdback_queues
  expected : Nat                -- CurrentBatch.expected_epoch
  cur : List Task               -- CurrentBatch.processed_logical_batch (+ db_write_batch = their bufs)
  cpc : CPc
  final : Bool                  -- the commit channel was seen closed
  log : List (List Task)        -- ghost: the physical commits, in order
  store : Store                 -- the backing store
  shutting : Bool               -- shutting_down flag
  afterQ : List Task            -- after-commit channel
  aExited : Bool
  notified : List Nat           -- ghost: epochs whose caches were notified
  deactivated : List Nat        -- ghost: epochs deactivated without notification
  dpc : DPc
  crashed : Bool                -- the process aborted (panic inside a panic)

def init (nSer : Nat) : State :=
  { counter := 0, submitted := [], serQ := [], sers := List.replicate nSer .idle, serClosed := false,
    commitQ := [], heap := [], expected := 0, cur := [], cpc := .wait, final := false, log := [],
    store := Store.empty, shutting := false, afterQ := [], aExited := false, notified := [],
    deactivated := [], dpc := .running, crashed := false }

inductive Event
  | create
  | submit (e : Nat) (ops : List WOp)
  | serTake (w : Nat)
  | serSerialise (w : Nat) (buf : List WOp)
  | serSend (w : Nat)
  | serExit (w : Nat)
  | cRecv
  | cRecvClosed
  | cPop
  | cBreak
  | cDecide (more : Bool)
  | cCommit
  | cNotify
  | cAssert
  | aRecv
  | aExit
  | dSetFlag
  | dClose
  | dJoinSers
  | dJoinCommit
  | dJoinAfter
deriving DecidableEq, Repr, Inhabited

/-- Minimum of the hold-back heap by epoch (what `BinaryHeap::peek` returns under the reversed
`Ord` of `WriteTask`). -/
def heapMin : List Task → Option Task
  | [] => none
  | x :: xs =>
    match heapMin xs with
    | none => some x
    | some y => if x.epoch ≤ y.epoch then some x else some y

def allExited (l : List SerSt) : Bool := l.all (fun x => x == .exited)

/-- The physical commit: the buffers consumed into `db_write_batch`, applied in order. -/
def commitStore (st : Store) (cur : List Task) : Store :=
  cur.foldl (fun acc t => applyOps acc t.buf) st

/-- The transition function: `none` = the event is not enabled in `s`. -/
def step (s : State) (ev : Event) : Option State :=
  if s.crashed then none else
  match ev with
  | .create =>
    if s.dpc = .running then some { s with counter := s.counter + 1 } else none
  | .submit e ops =>
    if s.dpc = .running ∧ e < s.counter ∧ e ∉ s.submitted.map Task.epoch ∧ (ops.map WOp.key).Nodup then
      if s.sers = [] then
        -- no receiver exists: `send(..).unwrap()` panics, the batch inside the error is dropped
        -- while active, which panics again during unwinding: abort
        some { s with crashed := true }
      else
        some { s with submitted := s.submitted ++ [⟨e, ops, []⟩], serQ := s.serQ ++ [⟨e, ops, []⟩] }
    else none
  | .serTake w =>
    match s.sers[w]?, s.serQ with
    | some .idle, t :: q => some { s with serQ := q, sers := s.sers.set w (.raw t) }
    | _, _ => none
  | .serSerialise w buf =>
    match s.sers[w]? with
    | some (.raw t) =>
      if buf.isPerm t.ops then some { s with sers := s.sers.set w (.done { t with buf := buf }) } else none
    | _ => none
  | .serSend w =>
    match s.sers[w]? with
    | some (.done t) => some { s with commitQ := s.commitQ ++ [t], sers := s.sers.set w .idle }
    | _ => none
  | .serExit w =>
    match s.sers[w]? with
    | some .idle =>
      if s.serQ = [] ∧ s.serClosed = true then some { s with sers := s.sers.set w .exited } else none
    | _ => none
  | .cRecv =>
    match s.cpc, s.commitQ with
    | .wait, t :: q => some { s with commitQ := q, heap := t :: s.heap, cpc := .loop }
    | _, _ => none
  | .cRecvClosed =>
    if s.cpc = .wait ∧ s.commitQ = [] ∧ allExited s.sers = true then
      some { s with final := true, cpc := .loop }
    else none
  | .cPop =>
    if s.cpc = .loop then
      match heapMin s.heap with
      | some t =>
        if t.epoch = s.expected then
          some { s with heap := s.heap.erase t, cur := s.cur ++ [t], expected := s.expected + 1, cpc := .decide }
        else none
      | none => none
    else none
  | .cBreak =>
    if s.cpc = .loop then
      match heapMin s.heap with
      | some t =>
        if t.epoch = s.expected then none
        else some { s with cpc := if s.final then .lastCommit else .wait }
      | none => some { s with cpc := if s.final then .lastCommit else .wait }
    else none
  | .cDecide more =>
    if s.cpc = .decide then some { s with cpc := if more then .loop else .commit } else none
  | .cCommit =>
    match s.cpc with
    | .commit =>
      some { s with log := s.log ++ [s.cur], store := commitStore s.store s.cur, cur := [], cpc := .notify s.cur }
    | .lastCommit =>
      some { s with log := s.log ++ [s.cur], store := commitStore s.store s.cur, cur := [], cpc := .lastNotify s.cur }
    | _ => none
  | .cNotify =>
    match s.cpc with
    | .notify [] => some { s with cpc := .loop }
    | .notify (t :: r) =>
      if s.shutting then some { s with deactivated := s.deactivated ++ [t.epoch], cpc := .notify r }
      else some { s with afterQ := s.afterQ ++ [t], cpc := .notify r }
    | .lastNotify [] => some { s with cpc := .assert }
    | .lastNotify (t :: r) =>
      if s.shutting then some { s with deactivated := s.deactivated ++ [t.epoch], cpc := .lastNotify r }
      else some { s with afterQ := s.afterQ ++ [t], cpc := .lastNotify r }
    | _ => none
  | .cAssert =>
    if s.cpc = .assert then
      if s.heap = [] then some { s with cpc := .done }
      else
        -- the assertion panics; unwinding drops the held-back batches while active: second panic, abort
        some { s with crashed := true }
    else none
  | .aRecv =>
    match s.aExited, s.afterQ with
    | false, t :: q =>
      if s.shutting then some { s with afterQ := q, deactivated := s.deactivated ++ [t.epoch] }
      else some { s with afterQ := q, notified := s.notified ++ [t.epoch] }
    | _, _ => none
  | .aExit =>
    if s.aExited = false ∧ s.afterQ = [] ∧ s.cpc = .done then some { s with aExited := true } else none
  | .dSetFlag =>
    if s.dpc = .running then some { s with shutting := true, dpc := .flagged } else none
  | .dClose =>
    if s.dpc = .flagged then some { s with serClosed := true, dpc := .joinSers } else none
  | .dJoinSers =>
    if s.dpc = .joinSers ∧ allExited s.sers = true then some { s with dpc := .joinCommit } else none
  | .dJoinCommit =>
    if s.dpc = .joinCommit ∧ s.cpc = .done then some { s with dpc := .joinAfter } else none
  | .dJoinAfter =>
    if s.dpc = .joinAfter ∧ s.aExited = true then some { s with dpc := .returned } else none

def enabled (s : State) (ev : Event) : Bool := (step s ev).isSome

def fire (s : State) (ev : Event) : State := (step s ev).getD s

/-- States reachable from `init nSer` by enabled events: every schedule, every number of user
threads (events carry no thread identity: any thread may create or submit), every grouping decision
(`cDecide` carries the store's answer), every hash-map iteration order (`serSerialise` carries it). -/
inductive Reachable (nSer : Nat) : State → Prop
  | init : Reachable nSer (init nSer)
  | step {s s' : State} (ev : Event) : Reachable nSer s → step s ev = some s' → Reachable nSer s'

/-- Run a schedule; `none` if some event was not enabled. -/
def run (s : State) : List Event → Option State
  | [] => some s
  | ev :: rest => match step s ev with
    | some s' => run s' rest
    | none => none

/-! ### Derived views -/

/-- Batches submitted and not yet consumed by the commit worker. -/
def State.pending (s : State) : List Task := s.serQ ++ heldAll s.sers ++ s.commitQ ++ s.heap

/-- Batches consumed by the commit worker in consumption order: committed ones, then the open
physical batch. -/
def State.consumed (s : State) : List Task := s.log.flatten ++ s.cur

/-- Batches applied to the store, in application order. -/
def State.applied (s : State) : List Task := s.log.flatten

/-- Events of the pipeline itself (everything except the user's `create` / `submit` and the drop). -/
def Event.internal : Event → Bool
  | .create | .submit _ _ | .dSetFlag | .dClose | .dJoinSers | .dJoinCommit | .dJoinAfter => false
  | _ => true

/-- The content submitted under epoch `e` (`[]` if none). -/
def State.contentOf (s : State) (e : Nat) : List WOp :=
  match s.submitted.find? (fun t => t.epoch == e) with
  | some t => t.ops
  | none => []

/-- Sequential specification: apply the submitted batches one after another in creation order. -/
def seqSpec (s : State) (n : Nat) : Store :=
  (List.range n).foldl (fun st e => applyOps st (s.contentOf e)) Store.empty

end QbiceVerif.WB
