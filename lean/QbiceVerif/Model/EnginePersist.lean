/-
Persistence view of the sequential engine model (C07 restart, C08 crash), on top of
`Model/Engine.lean` (which is left unchanged).

What the code stores (`crates/qbice/src/engine/computation_graph/database.rs`): per query the columns
LastVerified / ForwardEdgeOrder / ForwardEdgeObservation / QueryKind / NodeInfo (value fingerprint,
TFC fingerprint, TFC) / PendingBackwardProjection / QueryInput / QueryResult, the backward-edge sets,
the dirty-edge set, the external-input index (= the nodes of kind `external`), and the timestamp
(`database/sync.rs`).  In the model that is `PSt` = `epoch`, `nodes`, `back`, `dirty` of `St`.  Not
stored: the computing table, the backward-projection locks, the per-epoch `dirtied_queries` set, the
statistics (and the model's bookkeeping of running firewall repairs); `world` is the environment (harness-controlled cells), not engine state.

Every publication of the code builds exactly one write batch (`new_write_transaction` …
`submit_write_buffer`): `set_computed` (the batch is created after the executor has returned, and
carries the dirty marks of a changed firewall as well), `clean_query`, `done_backward_projection`,
the session's batch (timestamp + every `set_input` / refresh + the dirty marks of the commit), and
the initial timestamp batch of an engine opened on an empty store.  The functions below are the
engine functions of `Model/Engine.lean` with one addition: at each of those points the persistent
image of the state is appended to a trace (`publish`).  In a sequential history batches are
created and submitted one at a time, so the i-th element of the trace is the content of the store
after the i-th logical write batch; a *batch* is the difference between two consecutive images.

`restart` = drop the engine (all batches drain) and open a new one on the same store;
`crashAt i` = the process dies when exactly `i` logical batches have reached the store.
Imports nothing outside core.
-/
import QbiceVerif.Model.Engine
namespace Qbice.Persist
open Qbice.Engine

deriving instance DecidableEq for Node

/-- the stored part of an engine state -/
structure PSt where
  epoch : Nat := 0
  nodes : List (Key × Node) := []
  back : List (Key × Key) := []
  dirty : List (Key × Key) := []
  deriving Repr, DecidableEq

def persistent (s : St) : PSt := { epoch := s.epoch, nodes := s.nodes, back := s.back, dirty := s.dirty }

/-- `Engine::new_with` on a store holding image `ps` (`Sync::new` reloads the timestamp; every map
    starts with an empty cache over the store); `w` is the environment. -/
def load (w : List (Key × Val)) (ps : PSt) : St :=
  { epoch := ps.epoch, nodes := ps.nodes, back := ps.back, dirty := ps.dirty, world := w }

/-- clean shutdown + reopen: everything that was published is in the store (C10 `drain_on_drop`),
    the volatile parts of the engine are gone: the computing table, the backward-projection locks,
    the running firewall repairs, the per-epoch `dirtied_queries` set and the statistic.  (`log`,
    `choicePoints`, `tapePos` are observation bookkeeping of the model, `world` is the environment.)
    `restart_is_reload` (Lemmas/EnginePersist.lean) shows this is `load` of the persistent image. -/
def restart (s : St) : St :=
  { s with computing := [], bpLock := [], tfcStack := [], dirtied := [], dirtiedEdges := 0 }

/-- engine state + the images of the store after every logical write batch so far (oldest first) -/
structure PS where
  st : St := {}
  trace : List PSt := []

abbrev MP := ExceptT Err (StateM PS)

/-- the engine model's helper functions (`Model/Engine.lean`) act on the engine state; the state is
    kept when an error is raised, as in `M` -/
def liftE {α} (a : M α) : MP α := ExceptT.mk fun ps =>
  let r := runM' a ps.st
  (r.1, { ps with st := r.2 })

instance : MonadLift M MP := ⟨liftE⟩

def getS : MP St := do return (← getThe PS).st
def setS (s : St) : MP Unit := modifyThe PS fun ps => { ps with st := s }
def modifyS (f : St → St) : MP Unit := modifyThe PS fun ps => { ps with st := f ps.st }
def throwP {α} (e : Err) : MP α := throw e

/-- `submit_write_buffer`: the batch of the current publication reaches the pipeline -/
def publish : MP Unit := modifyThe PS fun ps => { ps with trace := ps.trace ++ [persistent ps.st] }

/-- `onPanic` of the engine model, on `MP` -/
def onPanicP {α} (x : MP α) (cleanup : MP Unit) : MP α :=
  tryCatch x fun e =>
    match e with
    | .panic _ => do cleanup; throw e
    | _ => throw e

def runP' {α} (x : MP α) (ps : PS) : Except Err α × PS := (ExceptT.run x).run ps

def runP {α} (x : MP α) (ps : PS) : Except Err (α × PS) :=
  match runP' x ps with
  | (.ok a, ps') => .ok (a, ps')
  | (.error e, _) => .error e

-- ------------------------------------------------------------------ the engine proper (with `publish`)
-- The text between the markers is `Model/Engine.lean`'s mutual block, `userQuery`, `session` and `round`,
-- renamed (`…P`), retyped (`M` → `MP`) and with a `publish` after each of the four places where the code
-- submits a write batch.  It is regenerated from `Model/Engine.lean` before every check run.

-- BEGIN GENERATED (tools/props/c07.py gen_persist_model) — do not edit between the markers

mutual

/-- `Engine::query_for`, the loop unrolled over fuel. -/
def queryForP (t : Toggles) (p : Program) : Nat → Key → Caller → MP QRes
  | 0, _, _ => throwP .outOfFuel
  | fuel + 1, k, caller => do
    registerCallee p caller k
    -- a panic unwinding through `query_for` drops the un-defused `UndoRegisterCallee`
    onPanicP (queryLoopP t p fuel k caller) (liftE (undoRegister caller k))

def queryLoopP (t : Toggles) (p : Program) : Nat → Key → Caller → MP QRes
  | 0, _, _ => throwP .outOfFuel
  | fuel + 1, k, caller => do
    -- exit_scc
    let s ← getS
    if (findComp k s.computing).isSome then
      match caller with
      | .query c _ _ =>
        let cyc ← checkCyclic (s.computing.length + 1) k c t.f33
        if cyc then
          modifyComp c fun cc => { cc with inScc := true }
          return .cyclic
        else throwP (.deadlock s!"query {c} waits for computing {k} which is not its ancestor")
      | _ => pure ()
    -- fast path
    let now := (← getS).epoch
    let slow : Option Slow ← do
      match (← getNode k) with
      | none => pure (some .compute)
      | some n =>
        if n.lastVerified != now then pure (some .repair)
        else if (caller == .repairFirewall || caller == .bpp) && (if t.f14 then n.pendingBP.isSome else n.pendingBP == some now) then pure (some .bp)
        else pure none
    match slow with
    | none =>
      let n ← nodeInfoUnchecked k
      match caller with
      | .query c true _ => observeCallee c k n
      | _ => pure ()
      let requireValue := match caller with
        | .user => true
        | .query _ rv _ => rv
        | _ => false
      -- is_query_running_in_scc(caller)
      match caller with
      | .query c _ _ =>
        match findComp c (← getS).computing with
        | some cc => if cc.inScc then return .cyclic
        | none => pure ()
      | _ => pure ()
      return .value (if requireValue then some n.value else none)
    | some sp =>
      let nonPedanticQuery := match caller with
        | .query _ _ ped => !ped
        | _ => false
      if sp == .repair && (caller == .user || caller == .repairFirewall || (t.f1 && nonPedanticQuery)) then
        -- The firewalls are repaired before `k`'s computing lock is taken and `k` stays unverified
        -- meanwhile.  If `k` is (transitively) in its own firewall set — a firewall on a dependency
        -- cycle — the nested request for `k` finds it unverified and not computing and starts the same
        -- repair again, each time in a freshly spawned task: unbounded recursion, the request never
        -- completes.
        if (← getS).tfcStack.contains k then
          throwP (.deadlock s!"repair_transitive_firewall_callees of {k} requests itself: unbounded recursion")
        modifyS fun s => { s with tfcStack := k :: s.tfcStack }
        repairTfcP t p fuel k
        modifyS fun s => { s with tfcStack := s.tfcStack.erase k }
      -- get_write_guard
      match sp with
      | .bp =>
        let n ← nodeInfoUnchecked k
        if (if t.f14 then n.pendingBP.isNone else n.pendingBP != some now) then queryLoopP t p fuel k caller
        else
          if (← getS).bpLock.contains k then throwP (.deadlock s!"backward projection lock of {k} is held")
          modifyS fun s => { s with bpLock := k :: s.bpLock }
          onPanicP (invokeBackwardProjectionsP t p fuel k)
            (modifyS fun s => { s with bpLock := s.bpLock.filter (· != k) })
          queryLoopP t p fuel k caller
      | _ =>
        -- computing_lock_guard: double check
        let nd ← getNode k
        match nd with
        | some n =>
          if n.lastVerified == now then queryLoopP t p fuel k caller
          else
            if (findComp k (← getS).computing).isSome then throwP (.deadlock s!"computing lock of {k} is held")
            modifyS fun s => { s with computing := { key := k, kind := n.kind, callees := [], order := [], unorderedMode := false, inScc := false, tfc := [] } :: s.computing }
            onPanicP (repairQueryP t p fuel k caller) (liftE (popComputing k))
            queryLoopP t p fuel k caller
        | none =>
          let d ← nodeDef p k
          if d.kind == .input then throwP (.panic s!"Failed to find executor for query (input {k} was never set)")
          if (findComp k (← getS).computing).isSome then throwP (.deadlock s!"computing lock of {k} is held")
          modifyS fun s => { s with computing := { key := k, kind := d.kind, callees := [], order := [], unorderedMode := false, inScc := false, tfc := [] } :: s.computing }
          onPanicP (executeQueryP t p fuel k false caller) (liftE (popComputing k))
          queryLoopP t p fuel k caller

/-- `repair_transitive_firewall_callees` -/
def repairTfcP (t : Toggles) (p : Program) : Nat → Key → MP Unit
  | 0, _ => throwP .outOfFuel
  | fuel + 1, k => do
    let n ← match (← getNode k) with
      | some n => pure n
      | none => throwP (.panic "repair_transitive_firewall_callees: node_info unwrap")
    let mut fws : List Key := []
    for f in n.tfc do
      if !t.f36 then fws := fws ++ [f]
      else
        let selfMarked := match (← getNode f) with
          | some fn => fn.tfc.contains f
          | none => false
        if f != k && (← storedKind f) == .firewall && !selfMarked then fws := fws ++ [f]
    for f in (← permuteChoice t fws) do
      let _ ← queryForP t p fuel f .repairFirewall

/-- `invoke_backward_projections` + `done_backward_projection` -/
def invokeBackwardProjectionsP (t : Toggles) (p : Program) : Nat → Key → MP Unit
  | 0, _ => throwP .outOfFuel
  | fuel + 1, k => do
    let callers ← callersOf k
    let mut projs : List Key := []
    for c in callers do
      if (← storedKind c) == .projection then projs := projs ++ [c]
    for pj in (← permuteChoice t projs) do
      let _ ← queryForP t p fuel pj .bpp
    let n ← nodeInfoUnchecked k
    setNode k { n with pendingBP := none }
    publish   -- `done_backward_projection`: submit_write_buffer(tx)
    let s ← getS
    if !s.bpLock.contains k then throwP (.panic "backward projection lock entry missing")
    setS { s with bpLock := s.bpLock.filter (· != k) }

/-- `check_callee` -/
def checkCalleeP (t : Toggles) (p : Program) : Nat → Key → Kind → Key → List (Key × Obs) → Bool → MP Check
  | 0, _, _, _, _, _ => throwP .outOfFuel
  | fuel + 1, k, kindK, callee, obs, pedantic => do
    let edgeDirty := (← getS).dirty.contains (k, callee)
    if !edgeDirty && !pedantic && kindK != .projection then
      if !t.f1p then return .noNeed
      let now := (← getS).epoch
      let kc0 ← storedKind callee
      let frontier : List Key ← match kc0 with
        | .input | .external => pure []
        | .firewall => pure [callee]
        | _ => do pure (← nodeInfoUnchecked callee).tfc
      let mut trust := true
      for f in frontier do
        match (← getNode f) with
        | some n => if !(n.lastVerified == now && n.pendingBP.isNone) then trust := false
        | none => trust := false
      if trust then return .noNeed
    let kc ← storedKind callee
    if kc != .input then
      match (← queryForP t p fuel callee (.query k false pedantic)) with
      | .cyclic => if t.f16 then return .recompute
      | _ => pure ()
    let cn ← nodeInfoUnchecked callee
    match lookup callee obs with
    | none =>
      if t.f2 then return .recompute
      else throwP (.panic "check_callee: forward_edge_observation.get(callee).unwrap() on a callee without observation")
    | some o =>
      if cn.value != o.val then return .recompute
      let repairTfcNeeded := kc != .firewall && cn.tfc != o.tfc
      return .cleaned repairTfcNeeded edgeDirty

/-- `repair_query` = `should_recompute_query` then `execute_query(Recompute)` -/
def repairQueryP (t : Toggles) (p : Program) : Nat → Key → Caller → MP Unit
  | 0, _, _ => throwP .outOfFuel
  | fuel + 1, k, caller => do
    if caller == .bpp && !t.f13 then
      modifyComp k fun c => { c with callees := [], order := [], unorderedMode := false }
      executeQueryP t p fuel k true caller
    else
      let n ← nodeInfoUnchecked k
      let pedantic := match caller with
        | .query _ _ ped => ped
        | .bpp => true
        | _ => false
      let mut recompute := (t.f32 && n.sccRun) || (t.f34 && (n.fwd.flatMap Dep.keys).any fun c => (lookup c n.obs).isNone)
      let mut needTfc := false
      let mut cleaned : List Key := []
      for dep in n.fwd do
        if recompute then break
        match dep with
        | .single callee =>
          match (← checkCalleeP t p fuel k n.kind callee n.obs pedantic) with
          | .recompute => recompute := true
          | .noNeed => pure ()
          | .cleaned rt add =>
            if add then cleaned := cleaned ++ [callee]
            if rt then needTfc := true
        | .unordered ks =>
          -- one spawned task per chunk (chunks of one callee for small groups), run one after the
          -- other; a `Recompute` decision sets the `cancelled` flag (later chunks return at once); a
          -- task that panics is a `JoinError`, which the parent counts as "recompute" (the panic is
          -- swallowed) without cancelling the chunks that have not run yet
          let mut cancelled := false
          for callee in ks do
            if cancelled then break
            let r : Option Check ← tryCatch (some <$> checkCalleeP t p fuel k n.kind callee n.obs pedantic) fun e =>
              match e with
              | .panic _ => pure none
              | _ => throw e
            match r with
            | none => recompute := true
            | some .recompute => recompute := true; cancelled := true
            | some .noNeed => pure ()
            | some (.cleaned rt add) =>
              if add then cleaned := cleaned ++ [callee]
              if rt then needTfc := true
      if recompute then
        let keep := t.f31 && ((findComp k (← getS).computing).map (·.inScc)).getD false
        if !keep then
          modifyComp k fun c => { c with callees := [], order := [], unorderedMode := false }
        executeQueryP t p fuel k true caller
      else
        -- computing_lock_to_clean_query / clean_query
        let n ← nodeInfoUnchecked k
        let mut newTfc := n.tfc
        if needTfc then
          newTfc := []
          for x in n.fwd.flatMap Dep.keys do
            let kx ← storedKind x
            if kx == .firewall then newTfc := insertSorted x newTfc
            else
              let xn ← nodeInfoUnchecked x
              newTfc := unionSorted xn.tfc newTfc
        let mut newObs := n.obs
        if needTfc && t.f1q then
          newObs := []
          for (x, o) in n.obs do
            match (← getNode x) with
            | some xn => newObs := newObs ++ [(x, { o with tfc := xn.tfc })]
            | none => newObs := newObs ++ [(x, o)]
        modifyS fun s => { s with dirty := cleaned.foldl (fun d c => removePair (k, c) d) s.dirty }
        let tfcChanged := t.f1r && n.kind == .projection && newTfc != n.tfc
        if tfcChanged then
          dirtyPropagate (fuel + (← getS).back.length + 2) [k]
        let nowC := (← getS).epoch
        setNode k { n with tfc := newTfc, obs := newObs, lastVerified := nowC,
                           pendingBP := if tfcChanged then some nowC else n.pendingBP }
        publish   -- `clean_query`: submit_write_buffer(tx)
        popComputing k

/-- runs the executor of `owner` -/
def runProgP (t : Toggles) (p : Program) : Nat → Key → Bool → Prog → MP Val
  | 0, _, _, _ => throwP .outOfFuel
  | fuel + 1, owner, pedantic, prog => do
    match prog with
    | .ret v => pure v
    | .world k cont =>
      let v := (lookup k (← getS).world).getD 0
      runProgP t p fuel owner pedantic (cont v)
    | .ask k cont =>
      match (← queryForP t p fuel k (.query owner true pedantic)) with
      | .cyclic => throwP (.panic cyclicPayload)
      | .value none => throwP (.panic "Query did not return a value")
      | .value (some v) => runProgP t p fuel owner pedantic (cont v)
    | .askAll ks cont =>
      modifyComp owner fun c => { c with unorderedMode := true, order := c.order ++ [.unordered []] }
      let mut vs : List Val := []
      for k in ks do
        match (← queryForP t p fuel k (.query owner true pedantic)) with
        | .cyclic => throwP (.panic cyclicPayload)
        | .value none => throwP (.panic "Query did not return a value")
        | .value (some v) => vs := vs ++ [v]
      modifyComp owner fun c => { c with unorderedMode := false }
      runProgP t p fuel owner pedantic (cont vs)

/-- `execute_query` + `computing_lock_to_computed` + `set_computed` -/
def executeQueryP (t : Toggles) (p : Program) : Nat → Key → Bool → Caller → MP Unit
  | 0, _, _, _ => throwP .outOfFuel
  | fuel + 1, k, isRecompute, caller => do
    let d ← nodeDef p k
    let pedantic := match caller with
      | .query _ _ ped => ped
      | .bpp => true
      | _ => false
    -- `invoke_executor`: `catch_unwind` around the executor (any panic, not only the cyclic payload)
    let ran : Ran ← tryCatch (Ran.done <$> runProgP t p fuel k pedantic d.prog) fun e =>
      match e with
      | .panic m => pure (.panicked m)
      | _ => throw e
    modifyS fun s => { s with log := s.log ++ [k] }
    let comp ← match findComp k (← getS).computing with
      | some c => pure c
      | none => throwP (.panic "execute_query: computing state missing")
    let value ← match comp.inScc, ran with
      | true, _ => pure d.dflt          -- whatever the executor did, also a genuine panic, is discarded
      | false, .done v => pure v
      | false, .panicked m => throwP (.panic m)   -- `panic.resume_unwind()`
    let now := (← getS).epoch
    let old ← getNode k
    let needBP ← match old with
      | some o =>
        if (o.kind == .firewall || o.kind == .projection) && isRecompute then
          if o.value != value || (t.f1r && o.kind == .projection && o.tfc != (if t.f36 && comp.inScc then insertSorted k comp.tfc else comp.tfc)) then
            dirtyPropagate (fuel + (← getS).back.length + 2) [k]
            pure true
          else pure false
        else
          if t.f35 && isRecompute && o.value != value && (o.tfc.contains k || o.sccRun || comp.inScc) then
            dirtyPropagate (fuel + (← getS).back.length + 2) [k]
          pure false
      | none => pure false
    match old with
    | some o => removeBackEdges k o.fwd isRecompute
    | none => pure ()
    let observations : List (Key × Obs) :=
      if (t.f3 || t.f34) && comp.inScc then [] else comp.callees.filterMap fun (c, o) => o.map fun o => (c, o)
    setNode k {
      kind := comp.kind, lastVerified := now, value := value, fwd := comp.order,
      obs := observations, tfc := (if t.f36 && comp.inScc then insertSorted k comp.tfc else comp.tfc),
      pendingBP := if needBP then some now else (old.bind (·.pendingBP)),
      sccRun := comp.inScc }
    addBackEdges k comp.order
    publish   -- `set_computed`: submit_write_buffer(tx)
    popComputing k

end

/-- `TrackedEngine::query` from the user, one tracked engine per roundP with its local cache. -/
def userQueryP (t : Toggles) (p : Program) (k : Key) : MP Val := do
  let s ← getS
  match (← queryForP t p (fuelFor p s) k .user) with
  | .value (some v) => pure v
  | .value none => throwP (.panic "Query did not return a value")
  | .cyclic => throwP (.panic "CyclicError at the root")

/-- One input sessionP: `input_session()` (epoch bump), the writes, `commit()`. -/
def sessionP (p : Program) (ws : List Write) : MP (List SetRes) := do
  -- world writes are applied by the harness before the sessionP starts
  for w in ws do
    match w with
    | .world k v => modifyS fun s => { s with world := upsert k v s.world }
    | _ => pure ()
  modifyS fun s => { s with epoch := s.epoch + 1 }
  let mut batch : List Key := []
  let mut out : List SetRes := []
  for w in ws do
    match w with
    | .world _ _ => out := out ++ [.world]
    | .set k v =>
      let d ← nodeDef p k
      if d.kind != .input then throwP (.badOp s!"set on non-input {k}")
      let r := match (← getNode k) with
        | none => SetRes.fresh
        | some n => if n.value != v then .updated else .unchanged
      if r == .updated then batch := batch ++ [k]
      setComputedInput k v true
      out := out ++ [r]
    | .refresh =>
      -- every key recorded in `external_input_queries` (= computed external nodes)
      let exts := ((← getS).nodes.filter fun (_, n) => n.kind == .external).map (·.1)
      let exts := exts.foldl (fun acc k => insertSorted k acc) []
      let mut results : List (Key × Val) := []
      for k in exts do
        let d ← nodeDef p k
        let v ← match d.prog with
          | .world c cont => match cont ((lookup c (← getS).world).getD 0) with
            | .ret v => pure v
            | _ => throwP (.badOp "external executor must be `world k; ret`")
          | .ret v => pure v
          | _ => throwP (.badOp "external executor must not query")
        modifyS fun s => { s with log := s.log ++ [k] }
        results := results ++ [(k, v)]
      for (k, v) in results do
        let n ← nodeInfoUnchecked k
        if n.value != v then batch := batch ++ [k]
        setComputedInput k v false
      out := out ++ [.refreshed]
  -- commit_internal
  modifyS fun s => { s with dirtied := [], dirtiedEdges := 0 }
  dirtyPropagate (4 * (← getS).back.length + p.length + 8) batch
  publish   -- `commit_internal`: submit_write_buffer(transaction)
  pure out

/-- One roundP: one tracked engine, keys queried in order through its local cache. -/
def roundP (t : Toggles) (p : Program) (ks : List Key) : MP (List Val) := do
  let mut cache : List (Key × Val) := []
  let mut out : List Val := []
  for k in ks do
    match lookup k cache with
    | some v => out := out ++ [v]
    | none =>
      let v ← userQueryP t p k
      cache := cache ++ [(k, v)]
      out := out ++ [v]
  pure out

-- END GENERATED

-- ------------------------------------------------------------------ histories with restarts and crashes

/-- a fresh engine on an empty store: `Sync::new` writes timestamp 0 in a batch of its own -/
def PS.init : PS := { st := {}, trace := [persistent {}] }

/-- the content of the store after `i` logical batches (`0` = the empty store) -/
def imageAt (trace : List PSt) (i : Nat) : Option PSt :=
  match i with
  | 0 => some {}
  | i + 1 => trace[i]?

/-- the process dies when exactly `i` batches are in the store; a new engine is opened on it.
    An engine opened on the empty store writes the initial timestamp batch again. -/
def crashAt (w : List (Key × Val)) (trace : List PSt) (i : Nat) : Option PS :=
  match imageAt trace i with
  | none => none
  | some img => some { st := load w img, trace := if i = 0 then [persistent {}] else trace.take i }

def restartP (ps : PS) : PS := { ps with st := restart ps.st }

/-- every change of the stored part has been published: the store (last image) is the image of the state -/
def syncedB (ps : PS) : Bool := ps.trace.getLast? == some (persistent ps.st)

/-- nothing is in flight -/
def quiescentB (s : St) : Bool := s.computing.isEmpty && s.bpLock.isEmpty && s.tfcStack.isEmpty

end Qbice.Persist
