/-
Model of `CacheKeyOfSetMap` (crates/storage/src/key_of_set_map/cache.rs) for ONE set key, with the
part of the write-behind pipeline that touches it (`put_set`, commit in epoch order, `after_commit`
→ `flush_staging` → `FlushUpTo(epoch)`).

State of the code that is mirrored:
* `staging : TinyLFU<Key, TrackedConcurrentLog>` – per key an epoch-stamped operation log kept in a
  `std::collections::BinaryHeap` (max-heap on the epoch) and a `dirty` counter (pinned ⇔ dirty ≠ 0);
* `cache : TinyLFU<Key, Arc<RwLock<Entry>>>` with `Entry = InMemory(set) | TooLarge`, never pinned;
* the spill threshold (1024 in the code) is the parameter `thr`.

The log is kept here in CHRONOLOGICAL (append) order; the order in which the code's
`get_snapshot` folds it is the heap's vector order, reproduced by `heapOrder` (std's `push` =
append + sift-up, bit for bit).  `FlushUpTo(e)` pops while the top of the heap is ≤ e; the top of a
max-heap is a maximum, so it either pops nothing or empties the heap – that is how `flushLog` is
written (BinaryHeap's contract is trusted, see the plugin's TRUSTED_EXTRA).  Consequently the
heap always holds exactly the operations appended since it was last empty, pushed in that order.

Two switches record two defects that were found with this model and have since been repaired in
/repo (commits d9a4d81 and b91d22f); `true` is what the code does now, `false` what it did before:
* `fixSnap`  – `get_snapshot` folds the log chronologically (epoch, then issue order), the last
               operation on an element wins (before d9a4d81: heap-vector order, an insert cancelled a
               pending remove and vice versa) – finding F10;
* `fixSpill` – the `Spilled` merge iterator keeps draining the half-constructed set when it meets a
               removed element (before b91d22f: fell through to the rest iterator / the added
               elements and ended the whole iteration when those were exhausted) – finding F17.
`repaired` (= both on) is the configuration of the code as it is; `asIs` (= both off) is kept, under
its historical name, as the configuration of the code before the two fixes, for the witnesses.

Foreground operations (insert / remove / get) are atomic steps here; background events (commit,
notify, evictions) are placed between them.  Sets are lists; only membership is ever compared.
-/
namespace QbiceVerif.SetCache

structure Cfg where
  fixSnap : Bool
  fixSpill : Bool
deriving DecidableEq, Repr

/-- the code BEFORE the fixes of F10 and F17 (historical) -/
def asIs : Cfg := ⟨false, false⟩
/-- the code as it is (both repairs in place) -/
def repaired : Cfg := ⟨true, true⟩

/-- `VersionedOperation`: Insert(x)/Remove(x) stamped with the batch epoch. -/
structure LogOp where
  ins : Bool
  x : Nat
  epoch : Nat
deriving DecidableEq, Repr

inductive SEntry where
  | inMem (s : List Nat)
  | tooLarge
deriving DecidableEq, Repr

/-- a write batch projected on the key: `ops = none` – the batch does not mention the key;
otherwise the per-element last operation (`HashMap<Element, Operation>`). -/
structure SBatch where
  epoch : Nat
  ops : Option (List (Nat × Bool))
deriving DecidableEq, Repr

structure State where
  cfg : Cfg
  thr : Nat
  db : List Nat                           -- store image of the set, ascending (scan order)
  staging : Option (List LogOp × Int)     -- log (chronological) and `dirty`
  entry : Option SEntry
  openB : Option SBatch
  submitted : List SBatch
  notifs : List Nat                       -- epochs of committed batches mentioning the key, FIFO
  nextEpoch : Nat
  expected : Nat
  truth : List Nat                        -- ghost: the set as the operations issued so far define it
deriving DecidableEq, Repr

def init (cfg : Cfg) (thr : Nat) (db0 : List Nat) : State :=
  { cfg, thr, db := db0, staging := none, entry := none, openB := none, submitted := [], notifs := [],
    nextEpoch := 0, expected := 0, truth := db0 }

/-! ### sets as lists -/

/-- ordered insert without duplicates -/
def sinsert (x : Nat) : List Nat → List Nat
  | [] => [x]
  | y :: ys => if x < y then x :: y :: ys else if x = y then y :: ys else y :: sinsert x ys

def sremove (x : Nat) (s : List Nat) : List Nat := s.filter (· ≠ x)

/-! ### the heap's vector order (std `BinaryHeap::push` = `Vec::push` + `sift_up(0, old_len)`) -/

def swapAt (v : List LogOp) (i j : Nat) : List LogOp :=
  match v[i]?, v[j]? with
  | some a, some b => (v.set i b).set j a
  | _, _ => v

/-- `sift_up`: while pos > 0, parent = (pos-1)/2; stop if `elem <= parent`, else move up. -/
def siftUp (v : List LogOp) (pos : Nat) : Nat → List LogOp
  | 0 => v
  | fuel + 1 =>
      if pos = 0 then v
      else
        let parent := (pos - 1) / 2
        match v[pos]?, v[parent]? with
        | some a, some p => if a.epoch ≤ p.epoch then v else siftUp (swapAt v parent pos) parent fuel
        | _, _ => v

def heapPush (v : List LogOp) (op : LogOp) : List LogOp := siftUp (v ++ [op]) v.length (v.length + 1)

def heapOrder (log : List LogOp) : List LogOp := log.foldl heapPush []

/-! ### `get_snapshot` -/

structure Snapshot where
  added : List Nat
  removed : List Nat
deriving DecidableEq, Repr

/-- before d9a4d81: `Insert(v)`: if `removed.remove(v)` failed then `added.insert(v)`; symmetric for `Remove`. -/
def cancelStep (sn : Snapshot) (op : LogOp) : Snapshot :=
  if op.ins then
    if op.x ∈ sn.removed then { sn with removed := sremove op.x sn.removed }
    else { sn with added := sinsert op.x sn.added }
  else
    if op.x ∈ sn.added then { sn with added := sremove op.x sn.added }
    else { sn with removed := sinsert op.x sn.removed }

/-- the code now: the last operation on an element wins. -/
def lastStep (sn : Snapshot) (op : LogOp) : Snapshot :=
  if op.ins then { added := sinsert op.x sn.added, removed := sremove op.x sn.removed }
  else { added := sremove op.x sn.added, removed := sinsert op.x sn.removed }

def snapshotOf (cfg : Cfg) (log : List LogOp) : Snapshot :=
  if cfg.fixSnap then log.foldl lastStep ⟨[], []⟩
  else (heapOrder log).foldl cancelStep ⟨[], []⟩

def stagingSnapshot (s : State) : Snapshot :=
  match s.staging with
  | some (log, _) => snapshotOf s.cfg log
  | none => ⟨[], []⟩

/-! ### the merge iterators -/

/-- `MergeIterator::Streaming`: store scan filtered by `removed`, then `added`. -/
def streamIter (db : List Nat) (sn : Snapshot) : List Nat :=
  db.filter (fun x => x ∉ sn.removed) ++ sn.added

/-- `MergeIterator::Spilled` before b91d22f.  One unfolding = one call of `next()`; the iteration ends at
the first `None`.  (`removed.remove` in the rest loop cannot matter: a store scan has no duplicates.) -/
def spillIterAsIs (removed : List Nat) : List Nat → List Nat → List Nat → Nat → List Nat
  | _, _, _, 0 => []
  | half, rest, added, fuel + 1 =>
      match half with
      | h :: half' =>
          if h ∉ removed then h :: spillIterAsIs removed half' rest added fuel
          else
            match rest.dropWhile (fun x => x ∈ removed) with
            | r :: rest' => r :: spillIterAsIs removed half' rest' added fuel
            | [] =>
                match added with
                | a :: added' => a :: spillIterAsIs removed half' [] added' fuel
                | [] => []
      | [] =>
          match rest.dropWhile (fun x => x ∈ removed) with
          | r :: rest' => r :: spillIterAsIs removed [] rest' added fuel
          | [] =>
              match added with
              | a :: added' => a :: spillIterAsIs removed [] [] added' fuel
              | [] => []

def spillIter (cfg : Cfg) (half rest : List Nat) (sn : Snapshot) : List Nat :=
  if cfg.fixSpill then
    half.filter (fun x => x ∉ sn.removed) ++ rest.filter (fun x => x ∉ sn.removed) ++ sn.added
  else spillIterAsIs sn.removed half rest sn.added (half.length + rest.length + sn.added.length + 1)

/-! ### foreground operations -/

/-- `fetch_entry`: scan the store; more than `thr` elements → `TooLarge` (and the `Spilled` pieces);
otherwise store image ∪ added ∖ removed as an in-memory set. -/
def fetchEntry (s : State) (sn : Snapshot) : SEntry × Option (List Nat × List Nat) :=
  if s.db.length > s.thr then (.tooLarge, some (s.db.take (s.thr + 1), s.db.drop (s.thr + 1)))
  else (.inMem (sn.removed.foldl (fun acc x => sremove x acc) (sn.added.foldl (fun acc x => sinsert x acc) s.db)), none)

/-- `KeyOfSetMap::get`, collected. -/
def get (s : State) : State × List Nat :=
  let sn := stagingSnapshot s
  match s.entry with
  | some (.inMem set) => (s, set)
  | some .tooLarge => (s, streamIter s.db sn)
  | none =>
      match fetchEntry s sn with
      | (e, some (half, rest)) => ({ s with entry := some e }, spillIter s.cfg half rest sn)
      | (.inMem set, none) => ({ s with entry := some (.inMem set) }, set)
      | (.tooLarge, none) => ({ s with entry := some .tooLarge }, streamIter s.db sn)

def batchPut (ops : Option (List (Nat × Bool))) (x : Nat) (ins : Bool) : List (Nat × Bool) :=
  match ops with
  | none => [(x, ins)]
  | some l => l.filter (fun p => p.1 ≠ x) ++ [(x, ins)]

/-- `insert` / `remove` = `put_set` + `apply_op` (staging log append with `dirty += updated`, then the
cached in-memory set is updated in place and downgraded to `TooLarge` past the threshold). -/
def write (s : State) (x : Nat) (ins : Bool) : Option State :=
  match s.openB with
  | none => none
  | some b =>
      let updated := b.ops.isNone
      let op : LogOp := ⟨ins, x, b.epoch⟩
      let staging' := match s.staging with
        | some (log, dirty) => some (log ++ [op], if updated then dirty + 1 else dirty)
        | none => some ([op], if updated then 1 else 0)
      let entry' := match s.entry with
        | some (.inMem set) =>
            let set' := if ins then sinsert x set else sremove x set
            if set'.length > s.thr then some .tooLarge else some (.inMem set')
        | e => e
      some { s with
             openB := some { b with ops := some (batchPut b.ops x ins) }
             staging := staging'
             entry := entry'
             truth := if ins then sinsert x s.truth else sremove x s.truth }

def applyOps (db : List Nat) (ops : List (Nat × Bool)) : List Nat :=
  ops.foldl (fun acc p => if p.2 then sinsert p.1 acc else sremove p.1 acc) db

/-- `FlushUpTo(e)` on the max-heap: empties it iff its maximum is ≤ e. -/
def flushLog (log : List LogOp) (e : Nat) : List LogOp :=
  if log.all (fun op => op.epoch ≤ e) then [] else log

inductive Ev where
  | begin
  | ins (x : Nat)
  | rem (x : Nat)
  | get
  | submit
  | commit
  | notify
  | evictEntry
  | evictLog
deriving DecidableEq, Repr

/-- One step; `none` = not enabled; the second component is what a `get` returned. -/
def fire (s : State) : Ev → Option (State × Option (List Nat))
  | .begin =>
      match s.openB with
      | none => some ({ s with openB := some ⟨s.nextEpoch, none⟩, nextEpoch := s.nextEpoch + 1 }, none)
      | some _ => none
  | .ins x => (write s x true).map (·, none)
  | .rem x => (write s x false).map (·, none)
  | .get => let r := get s; some (r.1, some r.2)
  | .submit =>
      match s.openB with
      | some b => some ({ s with openB := none, submitted := s.submitted ++ [b] }, none)
      | none => none
  | .commit =>
      match s.submitted.find? (fun b => b.epoch = s.expected) with
      | some b =>
          some ({ s with
                  submitted := s.submitted.erase b
                  db := match b.ops with | some ops => applyOps s.db ops | none => s.db
                  notifs := match b.ops with | some _ => s.notifs ++ [b.epoch] | none => s.notifs
                  expected := s.expected + 1 }, none)
      | none => none
  | .notify =>
      match s.notifs with
      | e :: rest =>
          let staging' := match s.staging with
            | some (log, dirty) => some (flushLog log e, dirty - 1)
            | none => none
          some ({ s with notifs := rest, staging := staging' }, none)
      | [] => none
  | .evictEntry =>
      match s.entry with
      | some _ => some ({ s with entry := none }, none)
      | none => none
  | .evictLog =>
      match s.staging with
      | some (_, dirty) => if dirty = 0 then some ({ s with staging := none }, none) else none
      | none => none

/-- Runs a schedule; collects what each `get` returned together with the ghost `truth`. -/
def run (s : State) : List Ev → Option (State × List (List Nat × List Nat))
  | [] => some (s, [])
  | e :: es =>
      match fire s e with
      | none => none
      | some (s', out) =>
          match run s' es with
          | none => none
          | some (s'', outs) =>
              match out with
              | some r => some (s'', (r, s'.truth) :: outs)
              | none => some (s'', outs)

end QbiceVerif.SetCache

namespace QbiceVerif.SetCache

/-- The trigger-free region of the code before the fixes of F10/F17 (hypothesis of `set_refines_map_asis_partial`):
when the set is read, its staging log holds at most one operation per element, and a read that
fetches a set whose store image exceeds the threshold has no staged removal of one of the first
`thr+1` store elements (the part that is materialised before the fetch gives up). -/
def getSafe (s : State) : Bool :=
  match s.staging with
  | none => true
  | some (log, _) =>
      decide ((log.map (·.x)).Nodup) &&
        (s.entry.isSome || decide (s.db.length ≤ s.thr) ||
          log.all (fun op => op.ins || decide (op.x ∉ s.db.take (s.thr + 1))))

end QbiceVerif.SetCache

namespace QbiceVerif.SetCache

/-! ### `get` split at its two critical sections (for the reader-versus-writer witness)

Before /repo commit 73760b5 (finding F50) `get_entry` took the staging snapshot and probed the cache
(`getSnap`: the snapshot, if the probe misses) and later, inside the single flight, scanned the store,
built the entry from THAT snapshot and inserted it if the slot was still vacant (`getFetch`), while
another task's `insert`/`remove` (`write`) could run between the two.  Since 73760b5 the insert is
skipped when a write happened since before the snapshot (a generation counter as in the wide cache);
that check is not modelled here (it is in `Model/SetCacheConc.lean`, the multi-task model with multi-step operations) – these two
functions exist only for the historical witness. -/

def getSnap (s : State) : Option Snapshot :=
  match s.entry with
  | none => some (stagingSnapshot s)
  | some _ => none

def getFetch (s : State) (sn : Snapshot) : State × List Nat :=
  let install (e : SEntry) : State := match s.entry with
    | none => { s with entry := some e }
    | some _ => s
  match fetchEntry s sn with
  | (e, some (half, rest)) => (install e, spillIter s.cfg half rest sn)
  | (.inMem set, none) => (install (.inMem set), set)
  | (.tooLarge, none) => (install .tooLarge, streamIter s.db sn)

end QbiceVerif.SetCache

namespace QbiceVerif.SetCache

/-! ### `get` on a miss, split into its three phases (snapshot – store scan – overlay + install)

In the code the staging snapshot is taken by `get_entry` BEFORE `fetch_entry` scans the store, and the
set that is cached is `scan ∪ snapshot.added ∖ snapshot.removed`.  A background commit and its
`FlushUpTo` may fall between the scan and the install.  `getInstall s sn scanned` is the last phase:
`s` is the state at install time, `sn` the snapshot and `scanned` the store image that was read. -/

def fetchFrom (thr : Nat) (scanned : List Nat) (sn : Snapshot) : SEntry × Option (List Nat × List Nat) :=
  if scanned.length > thr then (.tooLarge, some (scanned.take (thr + 1), scanned.drop (thr + 1)))
  else (.inMem (sn.removed.foldl (fun acc x => sremove x acc) (sn.added.foldl (fun acc x => sinsert x acc) scanned)), none)

def getInstall (s : State) (sn : Snapshot) (scanned : List Nat) : State × List Nat :=
  let install (e : SEntry) : State := match s.entry with
    | none => { s with entry := some e }
    | some _ => s
  match fetchFrom s.thr scanned sn with
  | (e, some (half, rest)) => (install e, spillIter s.cfg half rest sn)
  | (.inMem set, none) => (install (.inMem set), set)
  | (.tooLarge, none) => (install .tooLarge, streamIter scanned sn)

/-- background events only -/
def isBackground : Ev → Bool
  | .commit | .notify | .evictEntry | .evictLog => true
  | _ => false

end QbiceVerif.SetCache
