/-
Fresh (single-epoch, empty-store) cycle evaluation: the Execute-only fragment of
`Engine::query_for` (crates/qbice/src/engine/computation_graph.rs) with the computing table
(`computing.rs`: `QueryComputing.callee_queries`, `is_in_scc`), `register_callee`, `exit_scc`,
`check_cyclic_internal`, `is_query_running_in_scc`, `execute_query`'s replacement of the value by
`scc_value()` and the unwinding of the reader (`CyclicPanicPayload`).

It is the part of `Model/Engine.lean` that runs when nothing has been computed before: no repair,
no dirty edges, no firewall machinery (a fresh query takes `SlowPath::Compute`, where query kinds
play no role).  Small enough to prove things about: `Props/C06.lean`.

State is passed explicitly; results are `Except Err (α × St)`.  Executors are run by structural
recursion on `Prog` (`runProg` takes the recursive `query_for` as a parameter), so the fuel of
`queryFor` counts only the nesting depth of queries.  Imports nothing outside core.
-/
namespace Qbice.Cycle

abbrev Key := Nat
abbrev Val := Int

/-- Executors as a free monad over `TrackedEngine::query`. -/
inductive Prog where
  | ret (v : Val)
  | ask (k : Key) (cont : Val → Prog)

structure NodeDef where
  /-- `Executor::scc_value()` -/
  dflt : Val
  prog : Prog

/-- key = index; an input is a node whose executor is `ret v` -/
abbrev Program := List NodeDef

/-- `QueryComputing` of a key on the computing table -/
structure Frame where
  key : Key
  /-- `callee_queries` in registration order -/
  callees : List Key
  /-- `is_in_scc` -/
  inScc : Bool
  deriving Repr, DecidableEq

/-- a completed run: what `set_computed` stores, plus whether the run ended inside an SCC -/
structure Done where
  key : Key
  val : Val
  marked : Bool
  /-- the forward edges of the run: every callee it registered, the cyclic read included -/
  reads : List Key
  deriving Repr, DecidableEq

structure St where
  /-- the computing table; head = the query whose lock was taken last -/
  stack : List Frame := []
  /-- computed queries of this epoch; head = completed last -/
  memo : List Done := []
  deriving Repr, DecidableEq

inductive Err
  | outOfFuel
  /-- waiting for a computing query that will never finish, or unbounded recursion of
      `check_cyclic_internal` -/
  | deadlock
  /-- an `unwrap`/`expect`/`resume_unwind` of the code -/
  | panic
  /-- the program asked for a key that has no definition -/
  | badKey
  deriving Repr, DecidableEq

inductive QRes | value (v : Val) | cyclic
  deriving Repr, DecidableEq

inductive Ran | done (v : Val) | aborted
  deriving Repr, DecidableEq

abbrev R (α : Type) := Except Err (α × St)

def findFrame (k : Key) : List Frame → Option Frame
  | [] => none
  | f :: r => if f.key = k then some f else findFrame k r

def findDone (k : Key) : List Done → Option Done
  | [] => none
  | d :: r => if d.key = k then some d else findDone k r

/-- `mark_scc` / `is_in_scc.store(true)` -/
def markFrame (k : Key) (s : List Frame) : List Frame :=
  s.map fun f => if f.key = k then { f with inScc := true } else f

/-- `QueryComputing::register_calee` on the computing state of `c` -/
def register (c k : Key) (s : List Frame) : List Frame :=
  s.map fun f => if f.key = c then (if k ∈ f.callees then f else { f with callees := f.callees ++ [k] }) else f

/-- the loop of `check_cyclic_internal` over `callee_queries` (`found |= …`, no short-circuit) -/
def checkList (rec : List Frame → Key → Except Err (Bool × List Frame)) :
    List Key → List Frame → Bool → Except Err (Bool × List Frame)
  | [], s, found => .ok (found, s)
  | c :: cs, s, found =>
    match findFrame c s with
    | none => checkList rec cs s found            -- `try_get_query_computing(k)` is `None`
    | some _ =>
      match rec s c with
      | .error e => .error e
      | .ok (f, s') => checkList rec cs s' (found || f)

/-- `check_cyclic_internal(computing = state of k, target)`: is `target` a registered callee of `k`
    or of a computing query reachable from `k` through registered callees?  Marks every computing
    query on a path.  This is the walk WITHOUT a visited set (the code before 4685b5a, finding F33):
    running out of `fuel` (> number of computing queries) means that recursion never returns.
    `cycle_never_hangs` proves that a sequential fresh evaluation never gets there (the computing
    table is a chain), so the visited set the code carries now is never consulted on these runs. -/
def checkCyclic : Nat → Key → List Frame → Key → Except Err (Bool × List Frame)
  | 0, _, _, _ => .error .deadlock
  | fuel + 1, target, s, k =>
    match findFrame k s with
    | none => .ok (false, s)
    | some f =>
      if target ∈ f.callees then .ok (true, markFrame k s)
      else
        match checkList (checkCyclic fuel target) f.callees s false with
        | .error e => .error e
        | .ok (found, s') => .ok (found, if found then markFrame k s' else s')

/-- `is_query_running_in_scc(caller)` -/
def inSccOf (caller : Option Key) (s : List Frame) : Bool :=
  match caller with
  | none => false
  | some c =>
    match findFrame c s with
    | some f => f.inScc
    | none => false

/-- the end of `query_for`: the value, or `CyclicError` when the caller has been marked meanwhile -/
def finish (caller : Option Key) (v : Val) (st : St) : QRes :=
  if inSccOf caller st.stack then .cyclic else .value v

/-- runs an executor; `q` is `query_for` on behalf of this executor.  A `CyclicError` unwinds the
    executor (`CyclicPanicPayload`). -/
def runProg (q : Key → St → R QRes) : Prog → St → R Ran
  | .ret v, st => .ok (.done v, st)
  | .ask k cont, st =>
    match q k st with
    | .error e => .error e
    | .ok (.cyclic, st') => .ok (.aborted, st')
    | .ok (.value v, st') => runProg q (cont v) st'

/-- `Engine::query_for` when nothing is stored from an earlier epoch. -/
def queryFor (p : Program) : Nat → Key → Option Key → St → R QRes
  | 0, _, _, _ => .error .outOfFuel
  | fuel + 1, k, caller, st0 =>
    -- register_callee (before anything else)
    let st : St := match caller with
      | some c => { st0 with stack := register c k st0.stack }
      | none => st0
    -- exit_scc
    match findFrame k st.stack with
    | some _ =>
      match caller with
      | none => .error .deadlock           -- a user request waits for the computing query
      | some c =>
        match checkCyclic (st.stack.length + 1) c st.stack k with
        | .error e => .error e
        | .ok (true, s') => .ok (.cyclic, { st with stack := markFrame c s' })
        | .ok (false, _) => .error .deadlock   -- `notified.await` on a query that waits for us
    | none =>
      -- fast path
      match findDone k st.memo with
      | some d => .ok (finish caller d.val st, st)
      | none =>
        -- SlowPath::Compute: computing lock, execute_query, set_computed
        match p[k]? with
        | none => .error .badKey
        | some nd =>
          let st1 : St := { st with stack := { key := k, callees := [], inScc := false } :: st.stack }
          match runProg (fun k' s => queryFor p fuel k' (some k) s) nd.prog st1 with
          | .error e => .error e
          | .ok (ran, st2) =>
            match findFrame k st2.stack with
            | none => .error .panic
            | some f =>
              let v? : Option Val :=
                if f.inScc then some nd.dflt
                else match ran with
                  | .done v => some v
                  | .aborted => none               -- `panic.resume_unwind()`
              match v? with
              | none => .error .panic
              | some v =>
                let st3 : St :=
                  { stack := st2.stack.filter (fun g => g.key != k),
                    memo := { key := k, val := v, marked := f.inScc, reads := f.callees } :: st2.memo }
                -- back to the fast path: hit
                .ok (finish caller v st3, st3)

/-- the fuel that always suffices: one unit per nested query, and keys on the stack are distinct -/
def fuelFor (p : Program) : Nat := p.length + 1

/-- queries from the user, one after the other (any number of rounds: a tracked engine's local
    cache only short-cuts what the fast path would answer anyway) -/
def evalRoots (p : Program) (fuel : Nat) : List Key → St → R (List Val)
  | [], st => .ok ([], st)
  | r :: rs, st =>
    match queryFor p fuel r none st with
    | .error e => .error e
    | .ok (.cyclic, _) => .error .panic         -- `CyclicError` at the root
    | .ok (.value v, st') =>
      match evalRoots p fuel rs st' with
      | .error e => .error e
      | .ok (vs, st'') => .ok (v :: vs, st'')

-- ------------------------------------------------------------------ specification side

/-- pure evaluation of an executor against a table of values -/
def evalWith (tbl : Key → Option Val) : Prog → Option Val
  | .ret v => some v
  | .ask k cont =>
    match tbl k with
    | some v => evalWith tbl (cont v)
    | none => none

/-- the keys an executor asks for when run against a table (in order, with repetitions) -/
def asksWith (tbl : Key → Option Val) : Prog → List Key
  | .ret _ => []
  | .ask k cont =>
    match tbl k with
    | some v => k :: asksWith tbl (cont v)
    | none => [k]

/-- plain from-scratch evaluation (no cycle handling at all): `none` = out of fuel or unknown key -/
def evalSpec (p : Program) : Nat → Key → Option Val
  | 0, _ => none
  | fuel + 1, k =>
    match p[k]? with
    | none => none
    | some nd => evalWith (evalSpec p fuel) nd.prog

def valOf (memo : List Done) (k : Key) : Option Val := (findDone k memo).map (·.val)

end Qbice.Cycle
