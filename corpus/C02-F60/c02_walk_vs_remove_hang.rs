//! Liveness hazard on the UNCHANGED code: a backward-edge removal that meets a
//! dirty walk in progress blocks a tokio worker thread, and the walk may be
//! parked in that very worker's queue.
//!
//! Same program and history as `SEED/demo/c02_small_set_walk.rs`, but with
//! every request on ONE runtime with two worker threads, and a watchdog on a
//! plain OS thread (a tokio timeout would need a free worker, and its timer
//! wake-up is exactly what un-sticks the runtime).
//!
//! Run (from the worktree, seeded patch reverted):
//!
//! ```text
//! cp SEED/hang/c02_walk_vs_remove_hang.rs crates/integration_test/tests/
//! cargo test --offline --workspace --test c02_walk_vs_remove_hang
//! ```

#![allow(missing_docs)]
#![allow(clippy::must_use_candidate)]
#![allow(clippy::missing_const_for_fn)]
#![allow(clippy::cast_possible_wrap, clippy::cast_possible_truncation)]

use std::{
    hash::BuildHasherDefault,
    sync::{
        Arc,
        atomic::{AtomicU64, Ordering},
        mpsc,
    },
    time::{Duration, Instant},
};

use fxhash::FxHasher;
use qbice::{
    Decode, Encode, Engine, Identifiable, StableHash, TrackedEngine,
    config::Config,
    executor::Executor,
    query::Query,
    serialize::Plugin,
    stable_hash::{SeededStableHasherBuilder, Sip128Hasher},
    storage::storage_engine::in_memory::{
        InMemoryStorageEngine, InMemoryStorageEngineFactory,
    },
};
use qbice_integration_test::Variable;

const GROUPS: u64 = 8;
const SWITCHERS: u64 = 4;
const STEADIES: u64 = 26;

const VALUE_BASE: u64 = 1_000_000;
const SELECTOR_BASE: u64 = 2_000_000;

#[derive(
    Debug, Clone, Copy, PartialEq, Eq, PartialOrd, Ord, Hash, Default,
    Identifiable,
)]
pub struct InMemoryConfig;

impl Config for InMemoryConfig {
    type StorageEngine = InMemoryStorageEngine;
    type BuildStableHasher = SeededStableHasherBuilder<Sip128Hasher>;
    type BuildHasher = BuildHasherDefault<FxHasher>;
}

macro_rules! query_type {
    ($name:ident { $($field:ident),* }) => {
        #[derive(
            Debug, Clone, Copy, PartialEq, Eq, PartialOrd, Ord, Hash,
            Identifiable, StableHash, Encode, Decode,
        )]
        pub struct $name { $(pub $field: u64),* }

        impl Query for $name {
            type Value = i64;
        }
    };
}

query_type!(Fw { group });
query_type!(Switcher { group, index });
query_type!(Steady { group, index });
query_type!(Root { group, index });

/// How many times the executor of `Fw(g)` has returned.
#[derive(Debug)]
pub struct Shared {
    fw_runs: Vec<AtomicU64>,
}

#[derive(Debug)]
pub struct FwExecutor(Arc<Shared>);

impl<C: Config> Executor<Fw, C> for FwExecutor {
    async fn execute(&self, query: &Fw, engine: &TrackedEngine<C>) -> i64 {
        let value = engine.query(&Variable(VALUE_BASE + query.group)).await;

        self.0.fw_runs[query.group as usize].fetch_add(1, Ordering::SeqCst);

        value
    }

    fn execution_style() -> qbice::ExecutionStyle {
        qbice::ExecutionStyle::Firewall
    }
}

#[derive(Debug)]
pub struct SwitcherExecutor(Arc<Shared>);

impl<C: Config> Executor<Switcher, C> for SwitcherExecutor {
    async fn execute(
        &self,
        query: &Switcher,
        engine: &TrackedEngine<C>,
    ) -> i64 {
        let selector =
            engine.query(&Variable(SELECTOR_BASE + query.group)).await;

        if selector != 0 {
            return engine.query(&Fw { group: query.group }).await
                + query.index as i64;
        }

        // Not interested in the firewall any more. Finish shortly after the
        // firewall's second run has produced its value (pure scheduling: the
        // result does not depend on it).
        let deadline = Instant::now() + Duration::from_secs(5);
        while self.0.fw_runs[query.group as usize].load(Ordering::SeqCst) < 2
            && Instant::now() < deadline
        {
            tokio::task::yield_now().await;
        }

        let micros = (query.group * 7 + query.index * 37) % 40 * 5;
        let spin = Instant::now() + Duration::from_micros(micros);
        while Instant::now() < spin {
            std::hint::spin_loop();
        }

        -1
    }
}

#[derive(Debug, Default, Clone, Copy)]
pub struct SteadyExecutor;

impl<C: Config> Executor<Steady, C> for SteadyExecutor {
    async fn execute(&self, query: &Steady, engine: &TrackedEngine<C>) -> i64 {
        engine.query(&Fw { group: query.group }).await * 100
            + query.index as i64
    }
}

#[derive(Debug, Default, Clone, Copy)]
pub struct RootExecutor;

impl<C: Config> Executor<Root, C> for RootExecutor {
    async fn execute(&self, query: &Root, engine: &TrackedEngine<C>) -> i64 {
        engine
            .query(&Switcher { group: query.group, index: query.index })
            .await
    }
}


/// Seconds without any request completing before the watchdog gives up. A
/// whole healthy run takes a few seconds.
const WATCHDOG_SECS: u64 = 20;

#[test]
fn removal_meeting_a_dirty_walk_does_not_hang() {
    let progress = Arc::new(AtomicU64::new(0));
    let (done_tx, done_rx) = mpsc::channel::<()>();

    {
        let progress = progress.clone();

        std::thread::spawn(move || {
            let runtime = tokio::runtime::Builder::new_multi_thread()
                .worker_threads(2)
                .enable_all()
                .build()
                .unwrap();

            // the scenario runs as a task of the runtime, like everything
            // else
            let handle = runtime.spawn(run(progress));
            runtime.block_on(handle).unwrap();

            done_tx.send(()).unwrap();
        });
    }

    // watchdog: plain OS thread (the test's own), plain std timeout
    let mut last = (0, Instant::now());
    loop {
        match done_rx.recv_timeout(Duration::from_millis(200)) {
            Ok(()) => return,
            Err(mpsc::RecvTimeoutError::Timeout) => {}
            Err(mpsc::RecvTimeoutError::Disconnected) => {
                panic!("the scenario thread panicked")
            }
        }

        let now = progress.load(Ordering::SeqCst);
        if now != last.0 {
            last = (now, Instant::now());
        } else if last.1.elapsed() > Duration::from_secs(WATCHDOG_SECS) {
            let pause = std::env::var("HANG_PAUSE_SECS")
                .ok()
                .and_then(|x| x.parse::<u64>().ok())
                .unwrap_or(0);
            eprintln!(
                "HANG: no request completed for {WATCHDOG_SECS} s; phase \
                 {} group {} (pid {}); pausing {pause} s for a debugger",
                now >> 32,
                now & 0xffff_ffff,
                std::process::id(),
            );
            std::thread::sleep(Duration::from_secs(pause));
            panic!(
                "HANG: epoch-2 requests of group {} never completed",
                now & 0xffff_ffff
            );
        }
    }
}

async fn run(progress: Arc<AtomicU64>) {
    let mut engine = Engine::<InMemoryConfig>::new_with(
        Plugin::default(),
        InMemoryStorageEngineFactory,
        SeededStableHasherBuilder::<Sip128Hasher>::new(0),
    )
    .await
    .unwrap();

    let shared = Arc::new(Shared {
        fw_runs: (0..GROUPS).map(|_| AtomicU64::new(0)).collect(),
    });

    engine.register_executor(Arc::new(FwExecutor(shared.clone())));
    engine.register_executor(Arc::new(SwitcherExecutor(shared.clone())));
    engine.register_executor(Arc::new(SteadyExecutor));
    engine.register_executor(Arc::new(RootExecutor));

    let engine = Arc::new(engine);

    // session 1
    {
        let mut session = engine.input_session().await;
        for group in 0..GROUPS {
            session.set_input(Variable(VALUE_BASE + group), 10).await;
            session.set_input(Variable(SELECTOR_BASE + group), 1).await;
        }
        session.commit().await;
    }

    // epoch 1: every caller of every firewall, one after the other
    {
        let tracked = engine.clone().tracked().await;

        for group in 0..GROUPS {
            progress.store((1 << 32) | group, Ordering::SeqCst);

            for index in 0..SWITCHERS {
                assert_eq!(
                    tracked.query(&Switcher { group, index }).await,
                    10 + index as i64
                );
            }
            for index in 0..STEADIES {
                assert_eq!(
                    tracked.query(&Steady { group, index }).await,
                    1000 + index as i64
                );
            }
        }
    }

    // session 2: the firewalls change, the switchers lose interest
    {
        let mut session = engine.input_session().await;
        for group in 0..GROUPS {
            session.set_input(Variable(VALUE_BASE + group), 20).await;
            session.set_input(Variable(SELECTOR_BASE + group), 0).await;
        }
        session.commit().await;
    }

    // epoch 2: concurrent requests, one group at a time, all on this runtime
    for group in 0..GROUPS {
        progress.store((2 << 32) | group, Ordering::SeqCst);

        let mut handles = Vec::new();

        {
            let engine = engine.clone();
            handles.push(tokio::spawn(async move {
                let tracked = engine.tracked().await;
                tracked.query(&Steady { group, index: 0 }).await
            }));
        }

        for index in 0..SWITCHERS {
            let engine = engine.clone();
            handles.push(tokio::spawn(async move {
                let tracked = engine.tracked().await;
                tracked.query(&Root { group, index }).await
            }));
        }

        for (i, handle) in handles.into_iter().enumerate() {
            let value = handle.await.unwrap();

            assert_eq!(value, if i == 0 { 2000 } else { -1 });
        }
    }

    // the values are right whenever the run gets this far
    let tracked = engine.clone().tracked().await;
    for group in 0..GROUPS {
        progress.store((3 << 32) | group, Ordering::SeqCst);

        for index in 0..STEADIES {
            assert_eq!(
                tracked.query(&Steady { group, index }).await,
                2000 + index as i64
            );
        }
    }
}
